"""translate_grammar.py — coq/Gen/Grammar.v and coq/Gen/Tables.v from the current source tree (vlib.REPO).

Grammar.v : for every SLY parser class of montepy/input_parser/ its production list (lhs, rhs symbols),
            start symbol, terminal list, precedence table and the number of shift/reduce and
            reduce/reduce conflicts of the LALR(1) table SLY built (introspection of the *imported* classes:
            Parser._grammar.Productions / .Terminals / .Precedence / .Start, Parser._lrtable.sr_conflicts /
            rr_conflicts — SLY resolves every `@_` decorator at class creation, so this is exactly the grammar
            the running MontePy uses).
Tables.v  : the lexer tables of tokens.py (_KEYWORDS, _PARTICLES, _SURFACE_TYPES, _EXPRESSIONS, literals, the ordered
            rule list with the regular-expression sources of each of the four lexers), Cell._ALLOWED_KEYWORDS,
            Cell._INPUTS_TO_PROPERTY (class prefix, attribute, ban_repeat), PREFIX_MATCHES with
            _class_prefix/_has_number/_has_classifier, DataInput._load_correct_parser's PARSER_PREFIX_MAP, and —
            by `ast` over cell.py — HOW Cell._parse_keyword_modifiers compares a class prefix with a parameter key
            (substring `in` or equality `==`).

The source is read from vlib.REPO in a *subprocess* (so that the harness process keeps whatever montepy it has
imported) and the translator fails closed: anything it does not recognise raises.
"""
import ast
import json
import os
import subprocess
import sys

import vlib

PARSERS = [
    # key, module, class
    ("cell", "montepy.input_parser.cell_parser", "CellParser"),
    ("surface", "montepy.input_parser.surface_parser", "SurfaceParser"),
    ("data", "montepy.input_parser.data_parser", "DataParser"),
    ("classifier", "montepy.input_parser.data_parser", "ClassifierParser"),
    ("param_only", "montepy.input_parser.data_parser", "ParamOnlyDataParser"),
    ("material", "montepy.input_parser.material_parser", "MaterialParser"),
    ("thermal", "montepy.input_parser.thermal_parser", "ThermalParser"),
    ("tally", "montepy.input_parser.tally_parser", "TallyParser"),
    ("tally_seg", "montepy.input_parser.tally_seg_parser", "TallySegmentParser"),
    ("read", "montepy.input_parser.read_parser", "ReadParser"),
]

_DUMP = r'''
import importlib, json, sys
PARSERS = json.loads(sys.argv[1])
out = {"parsers": {}}
for key, mod, cls in PARSERS:
    C = getattr(importlib.import_module(mod), cls)
    g = C._grammar
    lr = C._lrtable
    prods = []
    for p in g.Productions:
        if p.number == 0:
            continue                     # S' -> start (SLY's augmentation)
        prods.append([p.name, list(p.prod)])
    out["parsers"][key] = {
        "class": cls, "start": g.Start, "productions": prods,
        "terminals": sorted(t for t in g.Terminals if t != "error"),
        "precedence": sorted([k, v[0], v[1]] for k, v in g.Precedence.items()),
        "sr": sorted([int(s), str(t), str(r)] for s, t, r in lr.sr_conflicts),
        "rr": sorted([int(s), str(a), str(b)] for s, a, b in lr.rr_conflicts),
        "states": len(lr.lr_action),
        "nonterminals": sorted(g.Nonterminals),
        "lr_action": [[int(st), sorted([str(t), int(a)] for t, a in row.items())] for st, row in sorted(lr.lr_action.items())],
        "lr_goto": [[int(st), sorted([str(n), int(t)] for n, t in row.items())] for st, row in sorted(lr.lr_goto.items())],
        "defaulted": sorted([int(st), int(a)] for st, a in lr.defaulted_states.items()),
    }
from montepy.input_parser import tokens
lex = {}
for name in ("MCNP_Lexer", "ParticleLexer", "CellLexer", "DataLexer", "SurfaceLexer"):
    L = getattr(tokens, name)
    rules = []
    for n, p in L._rules:
        rules.append([n, p if isinstance(p, str) else p.pattern])
    lex[name] = {"rules": rules, "literals": sorted(L.literals), "reflags": int(L.reflags),
                 "tokens": sorted(L.tokens) if hasattr(L, "tokens") else []}
out["lexers"] = lex
out["keywords"] = sorted(tokens.MCNP_Lexer._KEYWORDS)
out["particles"] = sorted(tokens.ParticleLexer._PARTICLES)
out["surface_types"] = sorted(tokens.SurfaceLexer._SURFACE_TYPES)
out["expressions"] = [[k, v.pattern, int(v.flags)] for k, v in tokens.MCNP_Lexer._EXPRESSIONS.items()]
import montepy
from montepy.cell import Cell
from montepy.data_inputs import data_parser as dp
out["cell_allowed_keywords"] = sorted(Cell._ALLOWED_KEYWORDS)
out["inputs_to_property"] = sorted(
    [c.__name__, c._class_prefix(), attr, bool(ban)] for c, (attr, ban) in Cell._INPUTS_TO_PROPERTY.items())
out["prefix_matches"] = sorted(
    [c.__name__, c._class_prefix(), bool(c._has_number()), int(c._has_classifier())] for c in dp.PREFIX_MATCHES)
from montepy.particle import Particle
out["particle_enum"] = sorted(p.value.lower() for p in Particle)
# ---- the regular expressions of the lexers as abstract syntax (sre's own parser), for Gen/Lexer.v
import re as _re2
try:
    from re import _parser as _sre, _constants as _C
except ImportError:
    import sre_parse as _sre, sre_constants as _C

def _cset(av):
    neg = False
    items = []
    for op, a in av:
        if op is _C.NEGATE:
            neg = True
        elif op is _C.LITERAL:
            items.append(["c", a])
        elif op is _C.RANGE:
            items.append(["r", a[0], a[1]])
        elif op is _C.CATEGORY:
            items.append({_C.CATEGORY_DIGIT: ["d"], _C.CATEGORY_SPACE: ["s"], _C.CATEGORY_NOT_DIGIT: ["D"],
                          _C.CATEGORY_NOT_SPACE: ["S"]}[a])
        else:
            raise ValueError("unsupported set item %r" % (op,))
    return ["set", neg, items]

def _ast(sub):
    seq = []
    for op, av in sub:
        if op is _C.LITERAL:
            seq.append(["lit", av])
        elif op is _C.NOT_LITERAL:
            seq.append(["set", True, [["c", av]]])
        elif op is _C.ANY:
            seq.append(["any"])
        elif op is _C.IN:
            seq.append(_cset(av))
        elif op is _C.BRANCH:
            seq.append(["alt", [_ast(b) for b in av[1]]])
        elif op is _C.SUBPATTERN:
            if av[1] or av[2]:
                raise ValueError("inline flags are not supported")
            seq.append(_ast(av[3]))
        elif op is _C.MAX_REPEAT:
            mn, mx, body = av
            seq.append(["rep", int(mn), None if mx is _C.MAXREPEAT else int(mx), _ast(body)])
        elif op is _C.ASSERT_NOT:
            if av[0] != 1:
                raise ValueError("look-behind is not supported")
            seq.append(["notahead", _ast(av[1])])
        elif op is _C.AT:
            seq.append({_C.AT_BEGINNING: ["begin"], _C.AT_END: ["end"]}[av])
        elif op is _C.CATEGORY:
            seq.append(["set", False, [{_C.CATEGORY_DIGIT: ["d"], _C.CATEGORY_SPACE: ["s"]}[av]]])
        else:
            raise ValueError("unsupported regular-expression construct %r" % (op,))
    return ["seq", seq]

def _parse_re(pattern, flags):
    return _ast(_sre.parse(pattern, flags))

for name, L in lex.items():
    cls = getattr(tokens, name)
    if not (cls.reflags & _re2.IGNORECASE and cls.reflags & _re2.VERBOSE):
        raise ValueError("lexer flags changed: %r" % cls.reflags)
    L["ast"] = [[n, _parse_re(p, cls.reflags)] for n, p in L["rules"]]
out["expressions_ast"] = [[k, _parse_re(v.pattern, v.flags)] for k, v in tokens.MCNP_Lexer._EXPRESSIONS.items()]
for k, v in tokens.MCNP_Lexer._EXPRESSIONS.items():
    if not v.flags & _re2.IGNORECASE:
        raise ValueError("_EXPRESSIONS flags changed")
# two spellings of numbers that the model's [lex_safe] excludes from the lexer comparison while the source mis-lexes them
import re as _re
from montepy.utilities import fortran_float
_z = [p for n, p in tokens.MCNP_Lexer._rules if n == "ZAID"]
_zp = _z[0] if isinstance(_z[0], str) else _z[0].pattern
out["zaid_rule_stops_before_exponent"] = _re.match(_zp, "1234.56e1", tokens.MCNP_Lexer.reflags) is None
try:
    out["fortran_exponent_after_point"] = fortran_float("5.+3") == 5000.0
except ValueError:
    out["fortran_exponent_after_point"] = False
print(json.dumps(out))
'''


def _dump():
    env = dict(os.environ, PYTHONPATH=vlib.REPO, PYTHONHASHSEED="0", PYTHONDONTWRITEBYTECODE="1")
    p = subprocess.run([vlib.PY, "-W", "ignore", "-c", _DUMP, json.dumps(PARSERS)], env=env, stdout=subprocess.PIPE,
                       stderr=subprocess.PIPE, text=True, timeout=300)
    if p.returncode != 0:
        raise RuntimeError("translate_grammar: cannot import the parsers of %s:\n%s" % (vlib.REPO, p.stderr[-2000:]))
    return json.loads(p.stdout)


# ---------------------------------------------------------------------------- ast part
def _dispatch_mode():
    """How Cell._parse_keyword_modifiers decides that a parameter belongs to a modifier class: the `if` whose test is
    `input_class in Cell._INPUTS_TO_PROPERTY and <comparison of the class prefix>`.
    Recognised comparisons: `prefix in <expr>` -> 'substring';  `prefix == <expr>` / `<expr> == prefix` -> 'equality'
    (prefix = a name bound to `input_class._class_prefix()`, or that call itself).  Anything else raises."""
    path = os.path.join(vlib.REPO, "montepy", "cell.py")
    with open(path) as fh:
        tree = ast.parse(fh.read())
    fn = None
    for node in ast.walk(tree):
        if isinstance(node, ast.FunctionDef) and node.name == "_parse_keyword_modifiers":
            fn = node
    if fn is None:
        raise RuntimeError("translate_grammar: Cell._parse_keyword_modifiers not found")
    pnames = set()
    for node in ast.walk(fn):
        if (isinstance(node, ast.Assign) and isinstance(node.value, ast.Call)
                and isinstance(node.value.func, ast.Attribute) and node.value.func.attr == "_class_prefix"
                and len(node.targets) == 1 and isinstance(node.targets[0], ast.Name)):
            pnames.add(node.targets[0].id)

    def is_prefix(e):
        if isinstance(e, ast.Name) and e.id in pnames:
            return True
        return isinstance(e, ast.Call) and isinstance(e.func, ast.Attribute) and e.func.attr == "_class_prefix"

    def is_membership(c):
        return (isinstance(c, ast.Compare) and len(c.ops) == 1 and isinstance(c.ops[0], ast.In)
                and "_INPUTS_TO_PROPERTY" in ast.unparse(c.comparators[0]))
    modes = []
    for node in ast.walk(fn):
        if isinstance(node, ast.If) and isinstance(node.test, ast.BoolOp) and isinstance(node.test.op, ast.And) \
                and any(is_membership(v) for v in node.test.values):
            for c in node.test.values:
                if is_membership(c):
                    continue
                if not (isinstance(c, ast.Compare) and len(c.ops) == 1):
                    raise RuntimeError("translate_grammar: unrecognised dispatch test " + ast.unparse(c))
                op, left, right = c.ops[0], c.left, c.comparators[0]
                if isinstance(op, ast.In) and is_prefix(left):
                    modes.append("substring")
                elif isinstance(op, ast.Eq) and (is_prefix(left) or is_prefix(right)):
                    modes.append("equality")
                else:
                    raise RuntimeError("translate_grammar: unrecognised dispatch test " + ast.unparse(c))
    if len(modes) != 1:
        raise RuntimeError("translate_grammar: cannot find the prefix comparison in Cell._parse_keyword_modifiers (%r)" % modes)
    return modes[0]


def _parser_prefix_map():
    path = os.path.join(vlib.REPO, "montepy", "data_inputs", "data_input.py")
    tree = ast.parse(open(path).read())
    for node in ast.walk(tree):
        if isinstance(node, ast.FunctionDef) and node.name == "_load_correct_parser":
            aliases = {}
            for st in node.body:
                if isinstance(st, ast.Assign) and isinstance(st.targets[0], ast.Name):
                    if isinstance(st.value, ast.Dict) and st.targets[0].id == "PARSER_PREFIX_MAP":
                        out = []
                        for k, v in zip(st.value.keys, st.value.values):
                            if not isinstance(k, ast.Constant):
                                raise RuntimeError("translate_grammar: PARSER_PREFIX_MAP key not a constant")
                            name = ast.unparse(v)
                            name = aliases.get(name, name).split(".")[-1]
                            out.append((k.value, name))
                        return sorted(out)
                    aliases[st.targets[0].id] = ast.unparse(st.value)
    raise RuntimeError("translate_grammar: PARSER_PREFIX_MAP not found")


# ---------------------------------------------------------------------------- Coq output
def cs(s):
    return '"' + s.replace('"', '""') + '"'


def clist(xs, per_line=8, indent="  "):
    xs = list(xs)
    if not xs:
        return "[]"
    rows = []
    for i in range(0, len(xs), per_line):
        rows.append(indent + "; ".join(xs[i:i + per_line]))
    return "[\n" + ";\n".join(rows) + "\n]"


HEADER = ("(* GENERATED by harness/%s from the MontePy source tree — do not edit, not committed. *)\n"
          "From Coq Require Import List String.\nImport ListNotations.\nOpen Scope string_scope.\n\n")


def grammar_v(d):
    out = [HEADER % "translate_grammar.py",
           "Definition production := (string * list string)%type.\n"]
    for key, _, cls in PARSERS:
        g = d["parsers"][key]
        prods = ["(%s, [%s])" % (cs(l), "; ".join(cs(x) for x in r)) for l, r in g["productions"]]
        out.append("(* %s : %d productions, %d states *)" % (cls, len(prods), g["states"]))
        out.append("Definition %s_productions : list production := %s.\n" % (key, clist(prods, 1)))
        out.append("Definition %s_start : string := %s." % (key, cs(g["start"])))
        out.append("Definition %s_terminals : list string := %s." % (key, clist([cs(t) for t in g["terminals"]])))
        out.append("Definition %s_precedence : list (string * string * nat) := %s." % (
            key, clist(["(%s, %s, %d)" % (cs(a), cs(b), c) for a, b, c in g["precedence"]])))
        out.append("Definition %s_sr_conflicts : nat := %d." % (key, len(g["sr"])))
        out.append("Definition %s_rr_conflicts : nat := %d.\n" % (key, len(g["rr"])))
    out.append("Definition all_parsers : list (string * list production) := %s." % clist(
        ["(%s, %s_productions)" % (cs(k), k) for k, _, _ in PARSERS], 1))
    out.append("Definition all_conflicts : list (string * (nat * nat)) := %s." % clist(
        ["(%s, (%s_sr_conflicts, %s_rr_conflicts))" % (cs(k), k, k) for k, _, _ in PARSERS], 1))
    return "\n".join(out) + "\n"


LR_PARSERS = ["cell", "surface", "data", "classifier", "param_only", "material", "thermal", "tally", "tally_seg"]


def lrtables_v(d):
    """Gen/LRTables.v: the LALR(1) action/goto tables SLY built (Parser._lrtable.lr_action / lr_goto), i.e. the
    automaton *after* SLY's conflict resolution.  Symbols are indices: terminal i = i-th entry of <k>_lr_terminals
    ("$end" first), nonterminal j = j-th entry of <k>_lr_nonterminals.  Row s of <k>_lr_action is the list of
    (terminal index, action) of state s with SLY's encoding: > 0 shift to that state, < 0 reduce by production -a
    (production p is the p-th entry, 1-based, of Grammar.<k>_productions), 0 accept.  Row s of <k>_lr_goto:
    (nonterminal index, target state)."""
    out = ["(* GENERATED by harness/translate_grammar.py from the MontePy source tree — do not edit, not committed. *)\n"
           "From Coq Require Import List String ZArith.\nImport ListNotations.\nOpen Scope string_scope.\nOpen Scope Z_scope.\n"]
    for key in LR_PARSERS:
        g = d["parsers"][key]
        terms = ["$end"] + [t for t in g["terminals"] if t != "$end"]
        extra = sorted({t for _, row in g["lr_action"] for t, _ in row} - set(terms))
        if extra:
            raise RuntimeError("translate_grammar: action table of %s uses unknown terminals %r" % (key, extra))
        nts = list(g["nonterminals"])
        tix = {t: i for i, t in enumerate(terms)}
        nix = {n: i for i, n in enumerate(nts)}
        states = [st for st, _ in g["lr_action"]]
        if states != list(range(len(states))):
            raise RuntimeError("translate_grammar: states of %s are not 0..n-1" % key)
        gotos = dict((st, row) for st, row in g["lr_goto"])
        out.append("(* %s : %d states *)" % (g["class"], len(states)))
        out.append("Definition %s_lr_terminals : list string := %s." % (key, clist([cs(t) for t in terms])))
        out.append("Definition %s_lr_nonterminals : list string := %s." % (key, clist([cs(t) for t in nts])))
        rows = []
        for st, row in g["lr_action"]:
            rows.append("[" + "; ".join("(%d, %s)" % (tix[t], ("(%d)" % a) if a < 0 else str(a)) for t, a in row) + "]")
        out.append("Definition %s_lr_action : list (list (Z * Z)) := %s." % (key, clist(rows, 1)))
        rows = []
        for st in states:
            row = gotos.get(st, [])
            rows.append("[" + "; ".join("(%d, %d)" % (nix[n], t) for n, t in row) + "]")
        out.append("Definition %s_lr_goto : list (list (Z * Z)) := %s." % (key, clist(rows, 1)))
        dflt = dict((st, a) for st, a in g["defaulted"])
        out.append("Definition %s_lr_defaulted : list (Z * Z) := %s.\n" % (
            key, clist(["(%d, (%d))" % (st, a) for st, a in sorted(dflt.items())])))
    return "\n".join(out) + "\n"


LEXERS = ["CellLexer", "DataLexer", "SurfaceLexer"]


def _re_coq(a):
    k = a[0]
    if k == "seq":
        items = [_re_coq(x) for x in a[1]]
        if not items:
            return "REps"
        out = items[-1]
        for x in reversed(items[:-1]):
            out = "(RSeq %s %s)" % (x, out)
        return out
    if k == "alt":
        items = [_re_coq(x) for x in a[1]]
        out = items[-1]
        for x in reversed(items[:-1]):
            out = "(RAlt %s %s)" % (x, out)
        return out
    if k == "lit":
        return "(RLit %d)" % a[1]
    if k == "any":
        return "RAny"
    if k == "set":
        its = []
        for it in a[2]:
            its.append({"c": lambda i: "SChar %d" % i[1], "r": lambda i: "SRange %d %d" % (i[1], i[2]),
                        "d": lambda i: "SDigit", "s": lambda i: "SSpace", "D": lambda i: "SNotDigit",
                        "S": lambda i: "SNotSpace"}[it[0]](it))
        return "(RSet %s [%s])" % ("true" if a[1] else "false", "; ".join(its))
    if k == "rep":
        return "(RRep %d %s %s)" % (a[1], "None" if a[2] is None else "(Some %d)" % a[2], _re_coq(a[3]))
    if k == "notahead":
        return "(RNotAhead %s)" % _re_coq(a[1])
    if k == "begin":
        return "RBegin"
    if k == "end":
        return "REnd"
    raise ValueError(k)


def lexer_v(d):
    """Gen/Lexer.v: the token rules of the lexers, in rule order, as regular-expression syntax trees (parsed by
    Python's own sre parser with the lexer's flags IGNORECASE | VERBOSE), the _EXPRESSIONS of the shortcuts, and the
    literals.  Characters are code points (N)."""
    out = ["(* GENERATED by harness/translate_grammar.py from the MontePy source tree — do not edit, not committed. *)\n"
           "From Coq Require Import List String NArith.\nImport ListNotations.\nLocal Open Scope string_scope.\nLocal Open Scope N_scope.\n\n"
           "Inductive set_item := SChar (c : N) | SRange (lo hi : N) | SDigit | SSpace | SNotDigit | SNotSpace.\n"
           "Inductive re :=\n| REps | RLit (c : N) | RSet (negated : bool) (items : list set_item) | RAny\n"
           "| RSeq (a b : re) | RAlt (a b : re) | RRep (min : N) (max : option N) (r : re) | RNotAhead (r : re)\n"
           "| RBegin | REnd.\n"]
    for name in LEXERS:
        L = d["lexers"][name]
        rows = ["(%s, %s)" % (cs(n), _re_coq(a)) for n, a in L["ast"]]
        out.append("Definition %s_token_rules : list (string * re) := %s." % (name, clist(rows, 1)))
        out.append("Definition %s_token_literals : list string := %s.\n" % (name, clist(cs(x) for x in L["literals"])))
    rows = ["(%s, %s)" % (cs(n), _re_coq(a)) for n, a in d["expressions_ast"]]
    out.append("Definition shortcut_expressions : list (string * re) := %s." % clist(rows, 1))
    return "\n".join(out) + "\n"


def tables_v(d, mode, ppm):
    out = [HEADER % "translate_grammar.py"]
    out.append("Definition keywords : list string := %s." % clist(cs(x) for x in d["keywords"]))
    out.append("Definition particles : list string := %s." % clist(cs(x) for x in d["particles"]))
    out.append("Definition particle_enum : list string := %s." % clist(cs(x) for x in d["particle_enum"]))
    out.append("Definition surface_types : list string := %s." % clist(cs(x) for x in d["surface_types"]))
    out.append("Definition expressions : list (string * string) := %s." % clist(
        ["(%s, %s)" % (cs(k), cs(p)) for k, p, _ in d["expressions"]], 1))
    for name, L in d["lexers"].items():
        out.append("Definition %s_rules : list (string * string) := %s." % (
            name, clist(["(%s, %s)" % (cs(n), cs(p)) for n, p in L["rules"]], 1)))
        out.append("Definition %s_literals : list string := %s." % (name, clist(cs(x) for x in L["literals"])))
    out.append("Definition cell_allowed_keywords : list string := %s." % clist(cs(x) for x in d["cell_allowed_keywords"]))
    out.append("(* Cell._INPUTS_TO_PROPERTY: (class, class prefix, attribute, ban_repeat) *)")
    out.append("Definition inputs_to_property : list (string * string * string * bool) := %s." % clist(
        ["(%s, %s, %s, %s)" % (cs(a), cs(b), cs(c), "true" if e else "false") for a, b, c, e in d["inputs_to_property"]], 1))
    out.append("(* PREFIX_MATCHES: (class, _class_prefix, _has_number, _has_classifier) *)")
    out.append("Definition prefix_matches : list (string * string * bool * nat) := %s." % clist(
        ["(%s, %s, %s, %d)" % (cs(a), cs(b), "true" if c else "false", e) for a, b, c, e in d["prefix_matches"]], 1))
    out.append("(* DataInput._load_correct_parser: prefix -> parser class *)")
    out.append("Definition parser_prefix_map : list (string * string) := %s." % clist(
        ["(%s, %s)" % (cs(a), cs(b)) for a, b in ppm], 1))
    out.append("(* does the ZAID rule of the lexer leave 1234.56e1 to the NUMBER rule?  does fortran_float read 5.+3? *)")
    out.append("Definition zaid_rule_stops_before_exponent : bool := %s." % ("true" if d["zaid_rule_stops_before_exponent"] else "false"))
    out.append("Definition fortran_exponent_after_point : bool := %s." % ("true" if d["fortran_exponent_after_point"] else "false"))
    out.append("(* Cell._parse_keyword_modifiers: true = `prefix in key.lower()` (substring), false = equality *)")
    out.append("Definition cell_dispatch_by_substring : bool := %s." % ("true" if mode == "substring" else "false"))
    return "\n".join(out) + "\n"


def summary(d=None):
    """machine-readable summary used for the committed baseline (conflict counts, production counts, lexer rules)"""
    d = d or _dump()
    return {
        "conflicts": {k: [len(d["parsers"][k]["sr"]), len(d["parsers"][k]["rr"])] for k, _, _ in PARSERS},
        "conflict_lists": {k: {"sr": d["parsers"][k]["sr"], "rr": d["parsers"][k]["rr"]} for k, _, _ in PARSERS},
        "productions": {k: len(d["parsers"][k]["productions"]) for k, _, _ in PARSERS},
        "precedence": {k: d["parsers"][k]["precedence"] for k, _, _ in PARSERS},
        "lexer_rules": {n: L["rules"] for n, L in d["lexers"].items()},
        "expressions": d["expressions"],
    }


_LAST = {}


def regenerate():
    d = _dump()
    mode = _dispatch_mode()
    ppm = _parser_prefix_map()
    _LAST.clear()
    _LAST.update(d=d, mode=mode, ppm=ppm)
    written = []
    for name, text in (("Grammar.v", grammar_v(d)), ("Tables.v", tables_v(d, mode, ppm)),
                       ("LRTables.v", lrtables_v(d)), ("Lexer.v", lexer_v(d))):
        p = os.path.join(vlib.COQ, "Gen", name)
        if vlib.write_if_changed(p, text):
            written.append(p)
    return written


def last():
    if not _LAST:
        regenerate()
    return _LAST


if __name__ == "__main__":
    print(regenerate())
    if len(sys.argv) > 1 and sys.argv[1] == "--baseline":
        print(json.dumps(summary(last()["d"]), indent=1, sort_keys=True))
