"""vlib — shared machinery of the /verif checks.

Every check is `./check Cxx [--tier quick|thorough] [--replay file]`, implemented by
harness/props/Cxx.py : run(ctx).  This module gives it:

  * Coq build of the obligations of a property (full .vo build through coq_makefile/make,
    never -vos), Print Assumptions capture and policy, forbidden-token scan;
  * the extracted model binaries (one per model file, ExtrOcamlBasic+ExtrOcamlString only)
    and the vm_compute cross-check of a sample of their answers inside Coq;
  * case bookkeeping, known-findings attribution, verdict lines and the evidence file.
"""
import fcntl
import hashlib
import json
import os
import random
import re
import shutil
import subprocess
import sys
import time

VERIF = os.path.dirname(os.path.dirname(os.path.abspath(__file__)))
REPO = os.environ.get("VERIF_REPO", "/repo")
COQ = os.path.join(VERIF, "coq")
BUILD = os.path.join(VERIF, "_build")
PY = "/venv/bin/python"

ALLOWED_AXIOMS = {
    # standard-library axioms a theorem may depend on; each is named in DESIGN.md §7.
    # (empty on purpose: the development is axiom-free; extend only together with DESIGN.md)
}

FORBIDDEN = re.compile(
    r"\b(Admitted|admit|Axiom|Axioms|Parameter|Parameters|Conjecture|Conjectures)\b"
    r"|Admit Obligations|Unset Guard Checking|bypass_check|type-in-type|impredicative-set"
    r"|Unset Positivity Checking|Unset Universe Checking"
)


def sh(cmd, timeout=None, cwd=None, env=None, input=None):
    p = subprocess.run(
        cmd, shell=isinstance(cmd, str), cwd=cwd, env=env, input=input,
        stdout=subprocess.PIPE, stderr=subprocess.STDOUT, text=True, timeout=timeout,
    )
    return p.returncode, p.stdout


class Lock:
    def __init__(self, name="build"):
        os.makedirs(BUILD, exist_ok=True)
        self.path = os.path.join(BUILD, "." + name + ".lock")

    def __enter__(self):
        self.f = open(self.path, "w")
        fcntl.flock(self.f, fcntl.LOCK_EX)
        return self

    def __exit__(self, *a):
        fcntl.flock(self.f, fcntl.LOCK_UN)
        self.f.close()


def write_if_changed(path, text):
    try:
        with open(path) as f:
            if f.read() == text:
                return False
    except FileNotFoundError:
        pass
    os.makedirs(os.path.dirname(path), exist_ok=True)
    with open(path, "w") as f:
        f.write(text)
    return True


# ----------------------------------------------------------------------------
# Coq project
# ----------------------------------------------------------------------------
def coq_files():
    out = []
    for d in ("Gen", "Spec", "Model", "Proofs", "Properties", "Extract"):
        p = os.path.join(COQ, d)
        if os.path.isdir(p):
            for f in sorted(os.listdir(p)):
                if f.endswith(".v"):
                    out.append(f"{d}/{f}")
    return out


def coq_prepare():
    """(re)write _CoqProject and the Makefile when the file list changed."""
    files = coq_files()
    text = "-R . MPV\n-arg -w -arg -notation-overridden,-deprecated\n" + "\n".join(files) + "\n"
    changed = write_if_changed(os.path.join(COQ, "_CoqProject"), text)
    if changed or not os.path.exists(os.path.join(COQ, "Makefile")):
        rc, out = sh("coq_makefile -f _CoqProject -o Makefile", cwd=COQ, timeout=120)
        if rc != 0:
            raise RuntimeError("coq_makefile failed:\n" + out)


REQ_RE = re.compile(r"\b(?:Model|Proofs|Gen|Spec|Properties)\.[A-Za-z_][A-Za-z0-9_]*")


def dep_closure(rel):
    """the .v files (relative to coq/) that `rel` transitively requires from this development"""
    seen = []
    todo = [rel]
    while todo:
        f = todo.pop()
        if f in seen:
            continue
        seen.append(f)
        try:
            with open(os.path.join(COQ, f)) as fh:
                src = strip_coq_comments(fh.read())
        except FileNotFoundError:
            continue
        for stmt in re.findall(r"(?:From\s+MPV\s+)?Require\s+(?:Import|Export)?[^.]*(?:\.[A-Za-z_][^.]*)*\.", src):
            for m in REQ_RE.findall(stmt):
                todo.append(m.replace(".", "/") + ".v")
    return seen


def forbidden_scan(files=None):
    """Scan the development for anything that declares an axiom or weakens the kernel."""
    hits = []
    for rel in files or coq_files():
        p = os.path.join(COQ, rel)
        try:
            with open(p) as fh:
                src = fh.read()
        except FileNotFoundError:
            continue
        src_nc = strip_coq_comments(src)
        for i, line in enumerate(src_nc.split("\n"), 1):
            if FORBIDDEN.search(line):
                hits.append(f"{rel}:{i}: {line.strip()}")
    return hits


def strip_coq_comments(src):
    out = []
    depth = 0
    i = 0
    instr = False
    while i < len(src):
        c2 = src[i:i + 2]
        ch = src[i]
        if depth == 0 and ch == '"':
            instr = not instr
            out.append(ch)
            i += 1
        elif not instr and c2 == "(*":
            depth += 1
            i += 2
        elif not instr and c2 == "*)" and depth > 0:
            depth -= 1
            i += 2
        else:
            if depth == 0:
                out.append(ch)
            elif ch == "\n":
                out.append(ch)
            i += 1
    return "".join(out)


def coq_make(targets, timeout=1500, jobs=16, keep_going=False):
    """Build .vo targets (paths relative to coq/).  Returns (ok, log)."""
    with Lock("coq"):
        coq_prepare()
        cmd = ["timeout", str(timeout), "make", f"-j{jobs}"] + (["-k"] if keep_going else []) + list(targets)
        rc, out = sh(cmd, cwd=COQ, timeout=timeout + 30)
        return rc == 0, out


THM_RE = re.compile(r"^\s*(Theorem|Lemma|Corollary|Example|Fact|Proposition)\s+([A-Za-z_][A-Za-z0-9_']*)", re.M)


def property_theorems(prop_file):
    with open(os.path.join(COQ, prop_file)) as fh:
        src = strip_coq_comments(fh.read())
    return [(m.group(1), m.group(2)) for m in THM_RE.finditer(src)]


def print_assumptions(prop_file, names):
    """Run Print Assumptions on each named theorem of a compiled Properties file.
    Returns {name: 'closed' | [axiom lines] | 'error: ...'}."""
    mod = "MPV." + prop_file[:-2].replace("/", ".")
    os.makedirs(os.path.join(BUILD, "pa"), exist_ok=True)
    tag = prop_file[:-2].replace("/", "_")
    path = os.path.join(BUILD, "pa", f"PA_{tag}_{os.getpid()}.v")
    lines = [f"Require Import {mod}."]
    for n in names:
        lines.append(f'Goal True. idtac "@@BEGIN {n}". Abort.')
        lines.append(f"Print Assumptions {n}.")
        lines.append(f'Goal True. idtac "@@END {n}". Abort.')
    with open(path, "w") as f:
        f.write("\n".join(lines) + "\n")
    rc, out = sh(["timeout", "300", "coqc", "-R", COQ, "MPV", path], cwd=os.path.join(BUILD, "pa"))
    for ext in (".v", ".vo", ".glob", ".vok", ".vos"):
        try:
            os.remove(path[:-2] + ext)
        except FileNotFoundError:
            pass
    try:
        os.remove(os.path.join(BUILD, "pa", "." + os.path.basename(path)[:-2] + ".aux"))
    except FileNotFoundError:
        pass
    res = {}
    for n in names:
        m = re.search(r"@@BEGIN %s\n(.*?)@@END %s" % (re.escape(n), re.escape(n)), out, re.S)
        if not m:
            res[n] = "error: no output (rc=%d) %s" % (rc, out[-400:])
            continue
        body = m.group(1).strip()
        if body.startswith("Closed under the global context"):
            res[n] = "closed"
        elif body.startswith("Axioms:"):
            res[n] = [l.strip() for l in body.split("\n")[1:] if l.strip()]
        else:
            res[n] = "error: " + body[:300]
    return res


# ----------------------------------------------------------------------------
# extracted model binaries
# ----------------------------------------------------------------------------
DRIVER_ML = r"""
(* generic line driver: one request per line on stdin, one response per line on stdout *)
let explode s = List.init (String.length s) (String.get s)
let implode l = let b = Buffer.create 64 in List.iter (Buffer.add_char b) l; Buffer.contents b
let () =
  try
    while true do
      let line = input_line stdin in
      let r = try implode (Model.run (explode line)) with Stack_overflow -> "driver:stack_overflow" in
      print_string r; print_newline ()
    done
  with End_of_file -> ()
"""


def build_model(name, entry=None):
    """Extract coq/Model/<name>.v's entry point run_<name> and compile the driver.
    Returns the path of the binary.  Rebuilt when the .vo is newer than the binary."""
    entry = entry or f"run_{name}"
    bdir = os.path.join(BUILD, "bin", name)
    binp = os.path.join(bdir, "mpmodel")
    vo = os.path.join(COQ, "Model", name + ".vo")
    with Lock("ocaml_" + name):
        if os.path.exists(binp) and os.path.getmtime(binp) >= os.path.getmtime(vo):
            return binp
        os.makedirs(bdir, exist_ok=True)
        ext_v = os.path.join(bdir, "Ext.v")
        with open(ext_v, "w") as f:
            f.write(
                "From Coq Require Import ExtrOcamlBasic ExtrOcamlString.\n"
                f"From MPV Require Import Model.{name}.\n"
                "Extraction Language OCaml.\n"
                f'Definition run := {entry}.\n'
                'Extraction "Model.ml" run.\n'
            )
        rc, out = sh(["timeout", "600", "coqc", "-R", COQ, "MPV", "Ext.v"], cwd=bdir)
        if rc != 0:
            raise RuntimeError(f"extraction of {name} failed:\n{out}")
        with open(os.path.join(bdir, "driver.ml"), "w") as f:
            f.write(DRIVER_ML)
        rc, out = sh(
            "timeout 600 ocamlfind ocamlopt -O3 -w -a Model.mli Model.ml driver.ml -o mpmodel 2>&1 || "
            "timeout 600 ocamlfind ocamlopt -w -a Model.mli Model.ml driver.ml -o mpmodel",
            cwd=bdir,
        )
        if rc != 0:
            raise RuntimeError(f"ocaml build of {name} failed:\n{out}")
        return binp


def model_ask(name, requests, timeout=1800):
    """Send requests (list of one-line strings) to the extracted model; list of answers."""
    if not requests:
        return []
    binp = build_model(name)
    for r in requests:
        if "\n" in r:
            raise ValueError("request with newline")
    p = subprocess.run(
        ["bash", "-c", f"ulimit -s unlimited 2>/dev/null; exec {binp}"],
        input="\n".join(requests) + "\n", stdout=subprocess.PIPE, stderr=subprocess.PIPE,
        text=True, timeout=timeout,
    )
    out = p.stdout.split("\n")
    if out and out[-1] == "":
        out.pop()
    if len(out) != len(requests):
        raise RuntimeError(f"model {name}: {len(requests)} requests, {len(out)} answers; stderr={p.stderr[-500:]}")
    return out


def coq_string(s):
    return '"' + s.replace('"', '""') + '"'


def vm_crosscheck(name, requests, answers, sample=150, seed=0, entry=None):
    """Evaluate a sample of the requests inside Coq (vm_compute) and compare with the
    answers of the extracted binary.  Returns (n_checked, mismatching request list)."""
    entry = entry or f"run_{name}"
    idx = list(range(len(requests)))
    random.Random(seed).shuffle(idx)
    idx = sorted(idx[:sample])
    if not idx:
        return 0, []
    d = os.path.join(BUILD, "xcheck")
    os.makedirs(d, exist_ok=True)
    path = os.path.join(d, f"X_{name}_{os.getpid()}.v")
    body = ";\n".join(f"({coq_string(requests[i])}, {coq_string(answers[i])})" for i in idx)
    with open(path, "w") as f:
        f.write(
            "From Coq Require Import List String.\nImport ListNotations.\nOpen Scope string_scope.\n"
            f"From MPV Require Import Model.Wire Model.{name}.\n"
            f"Definition cases : list (string * string) := [\n{body}\n].\n"
            f"Eval vm_compute in (mismatches {entry} cases).\n"
        )
    rc, out = sh(["bash", "-c", f"ulimit -s unlimited 2>/dev/null; timeout 900 coqc -R {COQ} MPV {path}"], cwd=d)
    for ext in (".v", ".vo", ".glob", ".vok", ".vos"):
        try:
            os.remove(path[:-2] + ext)
        except FileNotFoundError:
            pass
    try:
        os.remove(os.path.join(d, "." + os.path.basename(path)[:-2] + ".aux"))
    except FileNotFoundError:
        pass
    m = re.search(r"=\s*\[(.*?)\]\s*:\s*list nat", out, re.S)
    if rc != 0 or not m:
        raise RuntimeError("vm_compute cross-check failed to run:\n" + out[-2000:])
    bad = [int(x) for x in re.findall(r"\d+", m.group(1))]
    return len(idx), [requests[idx[b]] for b in bad]


# ----------------------------------------------------------------------------
# known findings
# ----------------------------------------------------------------------------
def load_findings(prop):
    p = os.path.join(VERIF, "known_findings.json")
    try:
        with open(p) as fh:
            data = json.load(fh)
    except FileNotFoundError:
        data = {}
    out = [f for f in data.get("findings", []) if f.get("property") == prop]
    # per-property files are part of the committed list too: findings/Cxx.entries.json (open entries,
    # maintained next to the check) and findings/Cxx.fixed.json (repaired defects); one entry per id,
    # the per-property files take precedence over known_findings.json
    byid = {f.get("id"): f for f in out}
    for suffix, status in (("entries", None), ("fixed", "fixed")):
        ep = os.path.join(VERIF, "findings", f"{prop}.{suffix}.json")
        if os.path.exists(ep):
            with open(ep) as fh:
                for f in json.load(fh):
                    if f.get("property", prop) != prop:
                        continue
                    f = dict(f)
                    f.setdefault("property", prop)
                    if status:
                        f["status"] = status
                    byid[f.get("id")] = f
    return list(byid.values())


# ----------------------------------------------------------------------------
# context
# ----------------------------------------------------------------------------
class Ctx:
    def __init__(self, prop, tier, seed, replay=False):
        self.prop = prop
        self.tier = tier
        self.seed = seed
        self.t0 = time.time()
        self.rng = random.Random(f"{seed}:{prop}")
        self.cov = {
            "obligations": 0, "discharged": 0, "checker_cmd": "", "trusted_base": [],
            "programs": 0, "disagreements_checked": 0, "evaluations": 0,
            "distinct_nontrivial": 0, "rule": "", "samples": [],
        }
        self.assumptions = []
        self.violations = []      # list of (replay_path, no_failing_input)
        self.known_lines = []
        self.broken_obligations = []   # names of theorems / correspondences that no longer check
        self.findings = load_findings(prop)
        self.filtered = {}        # finding id -> count of generated failures attributed to it
        self._distinct = set()
        # replays of earlier runs of this property are stale: every run rewrites its own
        d = os.path.join(VERIF, "evidence", "replays")
        if os.path.isdir(d) and not replay:
            for f in os.listdir(d):
                if f.startswith(prop + "-"):
                    try:
                        os.remove(os.path.join(d, f))
                    except OSError:
                        pass

    # --- case accounting -----------------------------------------------------
    def count_case(self, key, nontrivial=True):
        self.cov["evaluations"] += 1
        if nontrivial:
            self._distinct.add(hashlib.sha1(repr(key).encode()).hexdigest())

    def sample(self, obj, limit=6):
        if len(self.cov["samples"]) < limit:
            self.cov["samples"].append(obj)

    # --- Coq obligations -----------------------------------------------------
    def prove(self, prop_file=None, extra_targets=()):
        """Build Properties/<prop>.v with everything it depends on and audit it.
        Returns True when every obligation is discharged under the axiom policy."""
        prop_file = prop_file or f"Properties/{self.prop}.v"
        vo = prop_file[:-2] + ".vo"
        targets = [vo] + list(extra_targets)
        cmd = f"cd {COQ} && make -j16 " + " ".join(targets)
        self.cov["checker_cmd"] = (
            cmd + "  (coq_makefile full .vo build, Coq 8.16.1; then Print Assumptions on every "
            "theorem of " + prop_file + ")"
        )
        thms = property_theorems(prop_file)
        names = [n for _, n in thms]
        self.cov["obligations"] += len(names)
        # audit the files this property's obligations depend on (another property's work in
        # progress must not raise an alarm here); Print Assumptions below is the kernel-level audit
        hits = forbidden_scan(dep_closure(prop_file))
        if hits:
            self.broken_obligations.append({"obligation": "forbidden-token scan", "detail": hits[:10]})
            return False
        ok, log = coq_make(targets)
        self.build_log = log
        if not ok:
            m = re.search(r'File "([^"]+)", line (\d+).*?\n(Error:.*?)(?:\n\n|\Z)', log, re.S)
            detail = (m.group(0)[:1500] if m else log[-1500:])
            # which theorems are still fine is unknown when the file does not compile
            self.broken_obligations.append({"obligation": f"coq build of {vo}", "detail": detail})
            return False
        pa = print_assumptions(prop_file, names)
        good = 0
        tb = []
        for n in names:
            r = pa[n]
            if r == "closed":
                good += 1
                tb.append(f"{n}: Closed under the global context")
            elif isinstance(r, list) and all(any(a in l for a in ALLOWED_AXIOMS) for l in r):
                good += 1
                tb.append(f"{n}: axioms {r}")
            else:
                self.broken_obligations.append({"obligation": n, "detail": r})
        self.cov["discharged"] += good
        self.cov["print_assumptions"] = tb
        if self.tier == "thorough" and os.environ.get("VERIF_NO_COQCHK") != "1":
            self.coqchk(prop_file)
        return good == len(names)

    def coqchk(self, prop_file):
        """thorough tier: re-check the compiled property file and everything it depends on with the
        independent checker and record the context summary (axioms, type-in-type, unsafe fixpoints)"""
        mod = "MPV." + prop_file[:-2].replace("/", ".")
        try:
            rc, out = sh(["timeout", "2400", "coqchk", "-silent", "-o", "-R", COQ, "MPV", mod], cwd=COQ, timeout=2500)
        except subprocess.TimeoutExpired:
            rc, out = 124, "timeout"
        summary = out[out.find("CONTEXT SUMMARY"):] if "CONTEXT SUMMARY" in out else out[-800:]
        lines = [l.strip() for l in summary.split("\n") if l.strip() and not set(l.strip()) <= set("=")]
        self.cov["coqchk"] = {"cmd": f"coqchk -silent -o -R {COQ} MPV {mod}", "exit": rc, "summary": lines[:40]}
        clean = rc == 0 and any("Axioms: <none>" in l for l in lines) and \
            any("type-in-type: <none>" in l for l in lines) and \
            any("unsafe (co)fixpoints: <none>" in l for l in lines) and \
            any("positivity is assumed: <none>" in l for l in lines)
        if not clean:
            self.broken_obligations.append({"obligation": "coqchk -o " + mod, "detail": lines[:40]})
        return clean

    # --- verdict ------------------------------------------------------------
    def replay_path(self, obj):
        d = os.path.join(VERIF, "evidence", "replays")
        os.makedirs(d, exist_ok=True)
        h = hashlib.sha1(json.dumps(obj, sort_keys=True, default=str).encode()).hexdigest()[:12]
        p = os.path.join(d, f"{self.prop}-{h}.json")
        with open(p, "w") as f:
            json.dump(obj, f, indent=1, sort_keys=True, default=str)
        return p

    def attribute(self, case):
        """Return the id of the open known finding this failing case belongs to, else None.
        A finding matches through a predicate over the *case* (harness/findings.py)."""
        import importlib
        import findings as F
        try:
            FP = importlib.import_module(f"findings_{self.prop}")
        except ImportError:
            FP = None
        for fd in self.findings:
            if fd.get("status") != "open":
                continue
            pred = getattr(F, fd["trigger"], None) or (getattr(FP, fd["trigger"], None) if FP else None)
            if pred is None:
                continue
            try:
                if pred(case, fd.get("params", {})):
                    return fd["id"]
            except Exception:
                continue
        return None

    def fail(self, case, no_failing_input=False):
        """Record a failing case: either attributed to an open known finding or a violation."""
        if not no_failing_input:
            fid = self.attribute(case)
            if fid:
                self.filtered[fid] = self.filtered.get(fid, 0) + 1
                return False
        case = dict(case)
        case["property"] = self.prop
        case["replay_cmd"] = f"./check {self.prop} --replay <this file>"
        p = self.replay_path(case)
        self.violations.append((p, no_failing_input))
        return True

    def finish(self, trusted_base, assumptions, rule, level="proof", extra=None):
        self.cov["distinct_nontrivial"] = len(self._distinct)
        self.cov["rule"] = rule
        self.cov["trusted_base"] = trusted_base + self.cov.get("print_assumptions", [])
        self.cov.pop("print_assumptions", None)
        self.cov["filtered_by_known_finding"] = self.filtered
        if self.broken_obligations:
            self.cov["broken_obligations"] = self.broken_obligations
        if extra:
            self.cov.update(extra)
        # obligations broke but no concrete failing input was found
        if self.broken_obligations and not any(not nf for _, nf in self.violations):
            p = self.replay_path({
                "property": self.prop, "kind": "broken-obligation",
                "broken": self.broken_obligations,
                "note": "a theorem, translator obligation or correspondence no longer checks; "
                        "the search found no concrete failing input",
            })
            self.violations.append((p, True))
        # known findings still reproducing
        for fd in self.findings:
            if fd.get("status") == "open" and fd.get("_reproduced", False):
                self.known_lines.append(f"KNOWN-FINDING: property={self.prop} {fd['id']}: {fd['what']}")
        ev = {
            "property_id": self.prop, "tier": self.tier, "seed": self.seed, "level": level,
            "coverage": self.cov, "assumptions": assumptions,
            "wall_s": round(time.time() - self.t0, 2), "violations": len(self.violations),
        }
        os.makedirs(os.path.join(VERIF, "evidence"), exist_ok=True)
        with open(os.path.join(VERIF, "evidence", f"{self.prop}.json"), "w") as f:
            json.dump(ev, f, indent=1, default=str)
        for l in self.known_lines:
            print(l)
        concrete = [v for v in self.violations if not v[1]]
        if concrete:
            for p, _ in concrete[:5]:
                print(f"VIOLATION property={self.prop} replay={p}")
            return 1
        if self.violations:
            p, _ = self.violations[0]
            print(f"VIOLATION property={self.prop} replay={p} no-failing-input-found")
            return 1
        print(f"OK property={self.prop} tier={self.tier} obligations={self.cov['obligations']} "
              f"discharged={self.cov['discharged']} programs={self.cov['programs']} "
              f"evaluations={self.cov['evaluations']} wall={ev['wall_s']}s")
        return 0


KERNEL_TB = [
    "Coq 8.16.1 kernel (Debian build), full .vo compilation through coq_makefile/make; vm_compute (bytecode VM) "
    "for reflective obligations and the model cross-check; no native_compute; no kernel check switched off",
    "extraction: ExtrOcamlBasic + ExtrOcamlString only (the latter imports ExtrOcamlChar); their directives, no "
    "other: Extract Inductive bool => bool, option => option, unit => unit, list => list, prod => ( * ), "
    "sumbool => bool, sumor => option; Extract Inlined Constant andb => (&&), orb => (||); "
    "Extract Inductive string => char list; Extract Inductive ascii => char and byte => char with "
    "Extract Constant zero/one/shift/Ascii.compare and Extract Inlined Constant ascii_dec, Ascii.eqb, Byte.eqb, "
    "Byte.byte_eq_dec => (=), Ascii.ascii_of_byte/byte_of_ascii => identity; no Extract Constant of our own; "
    "Z/positive/N/Q/nat stay Coq datatypes; OCaml 4.13.1 (ocamlfind ocamlopt); 12-line generic driver "
    "(vlib.DRIVER_ML); a sample of every run's model answers is re-evaluated by vm_compute inside Coq and must agree",
    "correspondence harness (Python under /venv/bin/python 3.12, PYTHONPATH=/repo, PYTHONHASHSEED=0): drives the real "
    "MontePy, canonicalises observations, decides which implementation function each model function is compared with",
]
