"""findings_C06.py — trigger predicates of the open C06 findings (findings/C06.entries.json).

There is no open C06 finding.  F-C06-remove-equal-object (remove(x) with x equal to, but not identical with, a member
left the member's stale number-cache entries behind) was repaired by /repo commit bd4067d (findings/C06.fixed.json,
regression case corpus/C06/fixed-9.json).  Nothing is attributed to it any more: if a look-up answers an object that
was taken out by remove() again, that is a violation."""


def C06_remove_equal_object(fcase, params):
    """F-C06-remove-equal-object is fixed: never attributes."""
    return False
