"""findings_C06.py — trigger predicates of the open C06 findings (findings/C06.entries.json).

A failing case is attributed to a finding only if the predicate holds for the *case* (the operation sequence)
and replacing the triggering feature makes the failure disappear; any other failure stays a violation."""


def _equal_object_removals(case):
    """positions of the remove(x) operations that took out a member other than x (an equal object), each with
    the member that left, provided that member is renumbered later in the sequence"""
    import props.C06 as C06
    w = C06.World(case)
    hits = []
    for i, op in enumerate(case["ops"]):
        before = w.members()
        r = w.apply(op)
        if op[0] == "remove" and r == "ok":
            gone = [m for m in before if m not in w.members()]
            if len(gone) == 1 and gone[0] != op[1]:
                e = gone[0]
                if any(o[0] == "setnum" and o[1] == e for o in case["ops"][i + 1:]):
                    hits.append((i, e))
    return hits


def C06_remove_equal_object(fcase, params):
    """F-C06-remove-equal-object: remove(x) with x == member but x is not the member (Surface, Material), the
    member having been renumbered while it was a member, and the removed member renumbered afterwards.
    Confirmed by giving every such remove() the member itself: the failure has to disappear."""
    import props.C06 as C06
    if fcase.get("kind") != "oracle":
        return False
    c = fcase.get("case")
    if not c or c.get("kind") not in C06.VALUE_EQ_KINDS:
        return False
    c = C06.norm_case(c)
    try:
        hits = _equal_object_removals(c)
    except Exception:
        return False
    if not hits:
        return False
    ops = list(c["ops"])
    for i, e in hits:
        ops[i] = ("remove", e)
    fixed = dict(c, ops=ops)
    try:
        return C06.check_case(fixed) is None
    except Exception:
        return False
