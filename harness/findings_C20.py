"""findings_C20.py — trigger predicates of the known findings of C20 (findings/C20.entries.json).

A failing case is attributed to F-C20-read-cycle only if (a) it is a hang, (b) the tree of files has a cycle of read
cards, and (c) the same tree without the read cards that close a cycle is read without a hang: any other failure of
that tree stays a violation."""
import os
import shutil


_CONFIRMED = [0]


def C20_read_cycle(case, params):
    if case.get("kind") != "read-hangs":
        return False
    tree = case.get("case")
    if not tree:
        return False
    from props import C20
    if not C20.has_cycle(tree):
        return False
    cut = C20.without_cycles(tree)
    if C20.has_cycle(cut):
        return False
    if _CONFIRMED[0] >= 2:      # (c) was confirmed twice in this run: (a) and (b) decide from here on
        return True
    scratch = f"/tmp/C20-trig-{os.getpid()}"
    try:
        _, fails, res, _ = C20.case_fails(cut, scratch, "t")
    finally:
        shutil.rmtree(scratch, ignore_errors=True)
    ok = not res.get("timeout") and not any(f["kind"] == "read-hangs" for f in fails)
    _CONFIRMED[0] += ok
    return ok
