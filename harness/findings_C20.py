"""findings_C20.py — trigger predicates of the known findings of C20.

F-C20-read-cycle (a file that is read from itself made read_input hang) was repaired by /repo commit 2963569
(findings/C20.fixed.json).  Nothing is attributed to it any more: a hang on a cyclic tree is a violation again
(regression cases corpus/C20/fixed-read-cycle.json, corpus/C20/cycle-two-files.json)."""


def C20_read_cycle(case, params):
    return False
