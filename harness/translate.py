"""translate.py — regenerate every coq/Gen/*.v from the working tree of the repository under test.

Each translator is a module harness/translate_<name>.py with a function regenerate() that writes its
coq/Gen/<Name>.v (only when the content changed) and raises on source it does not recognise
(fail closed).  regenerate_all() is called by setup_all.py; every check calls the regenerate() of the
translators it depends on itself, before ctx.prove()."""
import importlib
import os
import sys

HERE = os.path.dirname(os.path.abspath(__file__))


def translators():
    out = []
    for f in sorted(os.listdir(HERE)):
        if f.startswith("translate_") and f.endswith(".py"):
            out.append(f[:-3])
    return out


def regenerate_all(strict=False):
    """Run every translator.  Returns {module name: 'ok' | 'error: ...'}; with strict=True the first
    failure is re-raised (a check treats a failing translator as a broken obligation itself)."""
    if HERE not in sys.path:
        sys.path.insert(0, HERE)
    res = {}
    for name in translators():
        try:
            mod = importlib.import_module(name)
            mod.regenerate()
            res[name] = "ok"
        except Exception as e:  # fail closed: the Gen file is removed by the translator itself
            if strict:
                raise
            res[name] = f"error: {type(e).__name__}: {e}"
            print(f"translate: {name}: {res[name]}")
    return res


if __name__ == "__main__":
    r = regenerate_all()
    for k, v in r.items():
        print(k, v)
    sys.exit(0 if all(v == "ok" for v in r.values()) else 1)
