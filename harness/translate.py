"""translate.py — regenerates every coq/Gen/*.v from /repo's current working tree.
Each harness/translate_<name>.py module provides regenerate() -> list of files written
(it must write only when the content changed, and fail closed — raise — on source it does
not recognise)."""
import importlib
import os

HERE = os.path.dirname(os.path.abspath(__file__))


def modules():
    return sorted(f[:-3] for f in os.listdir(HERE) if f.startswith("translate_") and f.endswith(".py"))


def regenerate_all():
    out = {}
    for m in modules():
        mod = importlib.import_module(m)
        out[m] = mod.regenerate()
    return out


if __name__ == "__main__":
    print(regenerate_all())
