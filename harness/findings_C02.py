"""Trigger predicates of the open C02 findings (decide from the case; confirm by removing the feature).

No C02 finding is open: the four defects this check found (implicit intersection fused after an edit, operator
setter without parentheses / UnboundLocalError, interpolate shortcut in a geometry, colon in the continuation
indent) were repaired in /repo (findings/C02.fixed.json) and their replays are regression cases in corpus/C02.
The helpers below are what a new entry's predicate would be built from."""


def has_op(p, ops):
    """does the operator program use one of ops"""
    if p is None:
        return False
    if p[0] in ops:
        return True
    if p[0] in ("p", "n", "c", "b"):
        return False
    return any(has_op(x, ops) for x in p[1:])


def passes_on_one_line(case):
    """the same case with the geometry text normalised to one line with single blanks passes oracle and model"""
    import importlib
    C02 = importlib.import_module("props.C02")
    c = case.get("case") or {}
    if not c.get("base_lines"):
        return False
    try:
        flat = dict(c, base_lines=C02.plain_lines(C02.canon(C02.geom_tokens(c["base_lines"]))))
        flat.pop("base_read_lines", None)
    except Exception:
        return False
    return C02.full_check(flat) is None
