"""Trigger predicates of the open C02 findings (decide from the case; confirm by removing the feature).

One C02 finding is open (F-C02-glued-nested-edit, found after /repo was frozen).  The five defects this check found (implicit intersection fused after an edit, operator
setter without parentheses / UnboundLocalError, interpolate shortcut in a geometry, colon in the continuation
indent, repeat shortcut after a tree) were repaired in /repo (findings/C02.fixed.json); their replays are regression
cases in corpus/C02.  The predicates below stay as the pattern for a new entry (decide from the case, confirm by
removing the feature)."""


def has_op(p, ops):
    """does the operator program use one of ops"""
    if p is None:
        return False
    if p[0] in ops:
        return True
    if p[0] in ("p", "n", "c", "b"):
        return False
    return any(has_op(x, ops) for x in p[1:])


def passes_on_one_line(case):
    """the same case with the geometry text normalised to one line with single blanks passes oracle and model"""
    import importlib
    C02 = importlib.import_module("props.C02")
    c = case.get("case") or {}
    if not c.get("base_lines"):
        return False
    try:
        flat = dict(c, base_lines=C02.plain_lines(C02.canon(C02.geom_tokens(c["base_lines"]))))
        flat.pop("base_read_lines", None)
    except Exception:
        return False
    return C02.full_check(flat) is None


def C02_repeat_shortcut_in_tree(case, params):
    """F-C02-geometry-repeat-shortcut: a repeat shortcut (nR / R) inside a cell geometry that follows more than one
    number.  Attributed when the geometry text that was read contains a repeat token and the same case with the
    repeat written out (the expanded text, which the case carries as base_read_lines) passes the oracle."""
    import importlib
    import re
    C02 = importlib.import_module("props.C02")
    c = case.get("case") or {}
    lines = c.get("base_lines")
    if not lines or not c.get("base_read_lines"):
        return False
    if not any(re.search(r"(^|\s)\d*[rR](\s|$)", l) for l in lines):
        return False
    expanded = dict(c, base_lines=c["base_read_lines"])
    expanded.pop("base_read_lines")
    return C02.judge(expanded, C02.observe(expanded)) is None


def _has_at(p):
    if p is None or p[0] in ("p", "n", "c", "b"):
        return False
    if p[0] == "AT":
        return True
    return any(_has_at(x) for x in (p[3:] if p[0] == "AT" else p[1:]))


def C02_glued_nested_edit(case, params):
    """F-C02-glued-nested-edit: an implicit intersection without a blank (')3', ')(' , '1(' , ')#') whose side is
    edited in place BELOW that node.  Attributed when the text that was read has such a glued pair, the program has an
    in-place edit of a sub-object (AT), and the very same case with the geometry text normalised to single blanks
    between all tokens passes the oracle and agrees with the model."""
    import re
    c = case.get("case") or {}
    lines = c.get("base_lines")
    if not lines or not _has_at(c.get("prog")):
        return False
    if not re.search(r"\)[+-]?\d|\)\(|\d\(|[\d)]#", " ".join(l.split("$")[0] for l in lines)):
        return False
    return passes_on_one_line(case)
