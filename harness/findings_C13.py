"""findings_C13.py — trigger predicates of the open known findings of property C13 (findings/C13.entries.json).

A failing case of harness/props/C13.py is a dict
   {"kind", "sig", "failure": {kind, mode, cls, func, where, stack, msg, ...}, "text", "corr", "name", "files",
    "iso": result of the worker's `isolate` mode (every input constructed on its own; the read of the file without the
           first input that fails on its own) or None}
A predicate attributes the case to its finding only if
   (i)   the triggering feature is present in the CASE: decided from the text of the file (independent reader
         harness/spec.py, token scanner of props/C13.py) or from constructing the inputs of the case one by one;
   (ii)  the failure has the finding's kind / exception class / raising function;
   (iii) where feasible: without the triggering input the failure is gone (the `without` part of `iso`).
Anything else stays a violation."""
import re


def _f(case):
    return case.get("failure") or {}


def _first(case):
    iso = case.get("iso") or {}
    if iso.get("out") == "ok" and iso.get("first") is not None:
        return iso["cards"][iso["first"]]
    return None


def _all_construct(case):
    iso = case.get("iso") or {}
    return iso.get("out") == "ok" and iso.get("first") is None


def _same_site(card, f):
    e = (card or {}).get("exc") or {}
    return e.get("cls") == f.get("cls") and e.get("func") == f.get("func")


def _matching(case, f):
    """the input of the case that, constructed on its own, fails like the failure (same class, same function)"""
    iso = case.get("iso") or {}
    if iso.get("out") != "ok":
        return None
    for c in iso.get("cards") or []:
        if c.get("exc") and _same_site(c, f) and "without" in c:
            return c
    return None


def _gone_without(card, f, key="without"):
    """rule (iii): the file without that input does not fail the same way"""
    w = (card or {}).get(key) or {}
    return not (w.get("out") == "raise" and w.get("cls") == f.get("cls") and w.get("func") == f.get("func"))


def _card_text(case, card):
    lines = case["text"].split("\n")
    return "\n".join(lines[card["line"] - 1: card["line"] - 1 + card["n"]])


def _data_part(card_text):
    return "\n".join(l.split("$", 1)[0] for l in card_text.split("\n") if not re.match(r"^ {0,4}[cC]( |$)", l))


def _value_error_through_parser(f):
    """a ValueError (sub)class that crossed MCNP_Parser.parse: MCNP_Object.__init__ converts those on the unchanged
    tree, so such a leak is never one of the known ones"""
    return "ValueError" in (f.get("mro") or [f.get("cls")]) and "parse" in (f.get("stack") or [])


def C13_fill_matrix_overflow(case, params):
    """a lattice FILL whose range or entry is an integer beyond 64 bits: numpy's OverflowError (an ArithmeticError,
    not among the classes parse_input converts) comes out of Fill._parse_matrix"""
    f = _f(case)
    if f.get("kind") not in ("leak", "check-raises") or f.get("cls") != "OverflowError" or f.get("func") != "_parse_matrix":
        return False
    card = _matching(case, f)
    if card is None:
        return False
    body = _data_part(_card_text(case, card))
    if not re.search(r"(?i)fill", body) or not re.search(r"\d{19,}", body):
        return False
    return _gone_without(card, f, "without_check" if f.get("kind") == "check-raises" else "without")


def _read_cards(text):
    """the read inputs of the file: [(text of the card's first line, has a file parameter)]"""
    out = []
    for m in re.finditer(r"(?im)^ {0,4}read(\s.*)?$", text):
        rest = (m.group(1) or "").split("$", 1)[0]
        out.append((m.group(0), re.search(r"(?i)(^|\s)file\s*(=|\s)\s*\S+", rest) is not None))
    return out


def C13_check_malformed_read_card(case, params):
    """check mode: a read input that does not parse: flush_input re-raises the ParsingError out of the generator"""
    f = _f(case)
    if f.get("kind") != "check-raises" or f.get("cls") != "ParsingError":
        return False
    st = f.get("stack") or []
    if "flush_input" not in st:
        return False
    return any(not has for _, has in _read_cards(case["text"]))


PER_CELL = re.compile(r"^(\*?fill|imp:.*|vol|u|lat)$")


def _per_cell_cards(text):
    """[(first word, number of entries, has junk)] of the data-block cards with one entry per cell, and the cell count"""
    import spec
    sf = spec.split_file(text, 128)
    blocks = sf["blocks"] + [[]] * (3 - len(sf["blocks"]))
    out = []
    for card in blocks[2]:
        toks = spec.tokens(card.text)
        if not toks or not PER_CELL.match(toks[0].lower()):
            continue
        rest = toks[1:]
        if toks[0].lower() == "vol" and rest and rest[0] == "NO":
            rest = rest[1:]
        vals = spec.expand_shortcuts(rest)
        junk = any(not (hasattr(v, "numerator") or v == "J") for v in vals)
        out.append((toks[0].lower(), len(vals), junk))
    return out, len(blocks[0])


def C13_cell_data_card_length(case, params):
    """a data-block card with one entry per cell (IMP, VOL, U, LAT, FILL) has more / fewer entries than there are
    cells, or an entry that is no number: push_to_cells runs off the list (IndexError) or onto None (AttributeError)"""
    f = _f(case)
    # (in check mode the same is reached when normal mode stopped earlier at another error)
    if f.get("kind") not in ("leak", "check-raises") or f.get("cls") not in ("AttributeError", "IndexError", "TypeError"):
        return False
    if "push_to_cells" not in (f.get("stack") or []):
        return False
    if not _all_construct(case):
        return False
    cards, ncell = _per_cell_cards(case["text"])
    return any(n != ncell or junk for w, n, junk in cards)


def _data_words(text):
    import spec
    sf = spec.split_file(text, 128)
    blocks = sf["blocks"] + [[]] * (3 - len(sf["blocks"]))
    return [(spec.tokens(c.text) or [""])[0].lower() for c in blocks[2]]


def _read_targets(text):
    return [m.group(1) for m in re.finditer(r"(?im)^ {0,4}read\s+.*?file\s*=?\s*(\S+)", text)]


def C13_check_missing_read_target(case, params):
    """check mode: the file a read card names does not exist: FileNotFoundError still raises"""
    f = _f(case)
    if f.get("kind") != "check-raises" or f.get("cls") != "FileNotFoundError":
        return False
    files = dict(case.get("files") or {})
    files[case.get("name", "case.i")] = case["text"]
    # a read input, in the file or in a file it (transitively) reads, names a file that is not there
    return any(t not in files for text in files.values() for t in _read_targets(text))


KNOCK_ON = ("AttributeError", "KeyError", "IndexError", "ParticleTypeNotInProblem", "ParticleTypeNotInCell")


def C13_check_knock_on(case, params):
    """check mode: an input that failed was skipped; the pointer update then runs on a problem with that input missing
    (one cell fewer than the entries of the per-cell data cards, the universe a FILL names never declared, MODE
    missing) and the follow-up failure is not reported as a warning"""
    f = _f(case)
    if f.get("kind") != "check-raises" or f.get("cls") not in KNOCK_ON:
        return False
    st = f.get("stack") or []
    if "__update_internal_pointers" not in st:
        return False
    # an input is skipped in check mode: it fails on its own, or the inputs cannot even be split (vertical format),
    # or two objects share a number (the second is not appended)
    iso = case.get("iso") or {}
    if _first(case) is not None or iso.get("out") == "raise":
        return True
    import props.C13 as C13
    return any("is used twice" in r for r in C13.spec_read(case["text"])["invalid"])


def C13_check_read_cycle(case, params):
    """check mode: a read card whose target (transitively) reads a file already being read: the MalformedInputError
    raised by the reading queue is not reported as a warning"""
    f = _f(case)
    if f.get("kind") != "check-raises" or f.get("cls") != "MalformedInputError" or f.get("func") != "read_data":
        return False
    return _read_graph_has_cycle(case)


def _read_graph_has_cycle(case):
    files = dict(case.get("files") or {})
    files[case.get("name", "case.i")] = case["text"]
    seen = set()
    todo = [case.get("name", "case.i")]
    while todo:
        n = todo.pop()
        if n in seen:
            return True
        seen.add(n)
        for t in _read_targets(files.get(n, "")):
            if t in files:
                if t in seen:
                    return True
                todo.append(t)
    return False
