"""findings_C13.py — trigger predicates of the open known findings of property C13 (findings/C13.entries.json).

A failing case of harness/props/C13.py is a dict
   {"kind", "sig", "failure": {kind, mode, cls, func, where, stack, msg, ...}, "text", "corr", "name", "files",
    "iso": result of the worker's `isolate` mode (every input constructed on its own; the read of the file without the
           first input that fails on its own) or None}
A predicate attributes the case to its finding only if
   (i)   the triggering feature is present in the CASE: decided from the text of the file (independent reader
         harness/spec.py, token scanner of props/C13.py) or from constructing the inputs of the case one by one;
   (ii)  the failure has the finding's kind / exception class / raising function;
   (iii) where feasible: without the triggering input the failure is gone (the `without` part of `iso`).
Anything else stays a violation."""
import re


def _f(case):
    return case.get("failure") or {}


def _first(case):
    iso = case.get("iso") or {}
    if iso.get("out") == "ok" and iso.get("first") is not None:
        return iso["cards"][iso["first"]]
    return None


def _all_construct(case):
    iso = case.get("iso") or {}
    return iso.get("out") == "ok" and iso.get("first") is None


def _same_site(card, f):
    e = (card or {}).get("exc") or {}
    return e.get("cls") == f.get("cls") and e.get("func") == f.get("func")


def _matching(case, f):
    """the input of the case that, constructed on its own, fails like the failure (same class, same function)"""
    iso = case.get("iso") or {}
    if iso.get("out") != "ok":
        return None
    for c in iso.get("cards") or []:
        if c.get("exc") and _same_site(c, f) and "without" in c:
            return c
    return None


def _gone_without(card, f, key="without"):
    """rule (iii): the file without that input does not fail the same way"""
    w = (card or {}).get(key) or {}
    return not (w.get("out") == "raise" and w.get("cls") == f.get("cls") and w.get("func") == f.get("func"))


def _card_text(case, card):
    lines = case["text"].split("\n")
    return "\n".join(lines[card["line"] - 1: card["line"] - 1 + card["n"]])


def _data_part(card_text):
    return "\n".join(l.split("$", 1)[0] for l in card_text.split("\n") if not re.match(r"^ {0,4}[cC]( |$)", l))


_NONINT = re.compile(r"(?<![\w.])[+-]?(\d+\.\d*|\.\d+|\d+\.?\d*[eEdD][+-]?\d+|\d+\.?\d*[+-]\d+)(?![\w.])")


def _value_error_through_parser(f):
    """a ValueError (sub)class that crossed MCNP_Parser.parse: MCNP_Object.__init__ converts those on the unchanged
    tree, so such a leak is never one of the known ones"""
    return "ValueError" in (f.get("mro") or [f.get("cls")]) and "parse" in (f.get("stack") or [])


def C13_int_conversion(case, params):
    """a number that is not an integer stands where MontePy converts with int(): ValueNode._convert_to_int lets the
    runtime's ValueError out (after the guarded parser call, so nothing converts it)"""
    f = _f(case)
    if f.get("kind") != "leak" or f.get("cls") != "ValueError" or "_convert_to_int" not in (f.get("stack") or []):
        return False
    if not (f.get("msg") or "").startswith("invalid literal for int()") or _value_error_through_parser(f):
        return False
    card = _matching(case, f)
    if card is None:
        return False
    body = _data_part(_card_text(case, card))
    m = re.search(r"'([^']*)'", f.get("msg") or "")
    # the literal int() refused is not an integer and stands in that input — or the input holds an interpolate /
    # multiply shortcut that generates non-integers (`-57 i 0.5` -> -28.25)
    if not m or re.match(r"^[+-]?\d+$", m.group(1)):
        return False
    shortcut = re.search(r"(?i)(?<![\w.])\d*(i|ilog|log|[\d.]+m)(?![\w.])", body)
    if m.group(1) not in body and not shortcut:
        return False
    return _gone_without(card, f)


_LEGAL = {}


def _legal():
    if not _LEGAL:
        import props.C13 as C13
        _LEGAL.update(C13.legal_chars())
    return _LEGAL


def C13_lexerror(case, params):
    """a character no lexer rule accepts: sly's LexError is not a ValueError, MCNP_Object.__init__ does not convert it"""
    f = _f(case)
    if f.get("kind") != "leak" or f.get("cls") != "LexError":
        return False
    card = _matching(case, f)
    if card is None:
        return False
    legal = _legal()[card["block"] if card["block"] in (0, 1, 2) else 2]
    body = _data_part(_card_text(case, card))
    if not any((32 <= ord(ch) < 127) and ch not in legal for ch in body):
        return False
    return _gone_without(card, f)


RAW_CLASSES = ("ValueError", "TypeError", "AttributeError", "KeyError", "IndexError")
RAW_FILES = ("montepy/data_inputs/", "montepy/input_parser/syntax_node.py")


def C13_constructor_raw_exception(case, params):
    """an input the grammar accepts but whose values the constructor of its data-input class (or the ValueNode /
    ListNode / ShortcutNode helpers it calls) assumes well formed: the runtime's exception comes out unconverted"""
    f = _f(case)
    if f.get("kind") != "leak" or f.get("cls") not in RAW_CLASSES:
        return False
    if "_convert_to_int" in (f.get("stack") or []) and (f.get("msg") or "").startswith("invalid literal for int()"):
        return False
    if _value_error_through_parser(f):
        return False
    where = f.get("where") or ""
    in_scope = where.startswith(RAW_FILES) or ("enum.py" in where and "is not a valid" in (f.get("msg") or ""))
    if not in_scope:
        return False
    card = _matching(case, f)
    if card is None:
        return False
    return _gone_without(card, f)


def _universe_facts(text):
    """(fill universes named, universes declared) read from the text by the independent reader"""
    import spec
    sf = spec.split_file(text, 128)
    blocks = sf["blocks"] + [[]] * (3 - len(sf["blocks"]))
    fills, unis = set(), set()
    for card in blocks[0]:
        toks = spec.tokens(card.text, cell_geometry=True)
        for i, t in enumerate(toks):
            if t in ("FILL", "*FILL") and i + 1 < len(toks) and re.match(r"^\+?\d+(\.0*)?$", toks[i + 1]):
                fills.add(int(float(toks[i + 1])))
            if t == "U" and i + 1 < len(toks) and re.match(r"^-?\d+$", toks[i + 1]):
                unis.add(abs(int(toks[i + 1])))
    for card in blocks[2]:
        toks = spec.tokens(card.text)
        if not toks:
            continue
        vals = [v for v in spec.expand_shortcuts(toks[1:]) if hasattr(v, "numerator")]
        if toks[0] in ("FILL", "*FILL"):
            fills.update(int(v) for v in vals if v == int(v))
        if toks[0] == "U":
            unis.update(abs(int(v)) for v in vals if v == int(v))
    return fills, unis


def C13_fill_dangling_universe(case, params):
    """FILL names a universe no cell declares: Fill.push_to_cells looks it up by number, KeyError comes out"""
    f = _f(case)
    # (in check mode the same look-up is reached when normal mode stopped earlier at another error)
    if f.get("kind") not in ("leak", "check-raises") or f.get("cls") != "KeyError" \
            or "get_universe" not in (f.get("stack") or []):
        return False
    if not _all_construct(case) and (case.get("iso") or {}).get("out") != "skipped":
        return False
    fills, unis = _universe_facts(case["text"])
    if any(n > 0 and n not in unis for n in fills):
        return True
    # ... or the data-block U / FILL input holds an entry that is no number: the universes end up on other cells
    cards, ncell = _per_cell_cards(case["text"])
    return any(junk for w, n, junk in cards if w in ("u", "fill", "*fill"))


PER_CELL = re.compile(r"^(\*?fill|imp:.*|vol|u|lat)$")


def _per_cell_cards(text):
    """[(first word, number of entries, has junk)] of the data-block cards with one entry per cell, and the cell count"""
    import spec
    sf = spec.split_file(text, 128)
    blocks = sf["blocks"] + [[]] * (3 - len(sf["blocks"]))
    out = []
    for card in blocks[2]:
        toks = spec.tokens(card.text)
        if not toks or not PER_CELL.match(toks[0].lower()):
            continue
        rest = toks[1:]
        if toks[0].lower() == "vol" and rest and rest[0] == "NO":
            rest = rest[1:]
        vals = spec.expand_shortcuts(rest)
        junk = any(not (hasattr(v, "numerator") or v == "J") for v in vals)
        out.append((toks[0].lower(), len(vals), junk))
    return out, len(blocks[0])


def C13_cell_data_card_length(case, params):
    """a data-block card with one entry per cell (IMP, VOL, U, LAT, FILL) has more / fewer entries than there are
    cells, or an entry that is no number: push_to_cells runs off the list (IndexError) or onto None (AttributeError)"""
    f = _f(case)
    # (in check mode the same is reached when normal mode stopped earlier at another error)
    if f.get("kind") not in ("leak", "check-raises") or f.get("cls") not in ("AttributeError", "IndexError", "TypeError"):
        return False
    if "push_to_cells" not in (f.get("stack") or []):
        return False
    if not _all_construct(case):
        return False
    cards, ncell = _per_cell_cards(case["text"])
    return any(n != ncell or junk for w, n, junk in cards)


CAUGHT_PER_INPUT = ("MalformedInputError", "NumberConflictError", "ParsingError", "UnknownElement")


def C13_check_constructor_errors(case, params):
    """check mode: the per-input handler of parse_input only names four classes; any other exception of an input's
    constructor (the explicit ValueError / TypeError MontePy raises for bad values included) still raises"""
    f = _f(case)
    if f.get("kind") != "check-raises":
        return False
    card = _matching(case, f)
    if card is None:
        return False
    if any(c in (card["exc"].get("mro") or []) for c in CAUGHT_PER_INPUT):
        return False
    return _gone_without(card, f, "without_check")


def _data_words(text):
    import spec
    sf = spec.split_file(text, 128)
    blocks = sf["blocks"] + [[]] * (3 - len(sf["blocks"]))
    return [(spec.tokens(c.text) or [""])[0].lower() for c in blocks[2]]


def _read_targets(text):
    return [m.group(1) for m in re.finditer(r"(?im)^ {0,4}read\s+.*?file\s*=?\s*(\S+)", text)]


def C13_check_number_conflict(case, params):
    """check mode: self._materials.append / self._transforms.append stand after the per-input try statement: a second
    material or transform with the same number (also through a read card that re-reads the file) still raises"""
    f = _f(case)
    if f.get("kind") != "check-raises" or f.get("cls") != "NumberConflictError" or f.get("func") != "append":
        return False
    st = f.get("stack") or []
    if len(st) < 2 or st[-2] != "parse_input":
        return False
    nums = {}
    for w in _data_words(case["text"]):
        m = re.match(r"^\*?(m|tr)(\d+)$", w)
        if m:
            k = (m.group(1), int(m.group(2)))
            nums[k] = nums.get(k, 0) + 1
    dup = any(v > 1 for v in nums.values())
    rereads = case.get("name", "case.i") in _read_targets(case["text"]) and bool(nums)
    return dup or rereads


def C13_check_missing_read_target(case, params):
    """check mode: the file a read card names does not exist: FileNotFoundError still raises"""
    f = _f(case)
    if f.get("kind") != "check-raises" or f.get("cls") != "FileNotFoundError":
        return False
    have = set((case.get("files") or {}).keys()) | {case.get("name", "case.i")}
    return any(t not in have for t in _read_targets(case["text"]))


KNOCK_ON = ("AttributeError", "KeyError", "IndexError", "ParticleTypeNotInProblem", "ParticleTypeNotInCell")


def C13_check_knock_on(case, params):
    """check mode: an input that failed was skipped; the pointer update then runs on a problem with that input missing
    (one cell fewer than the entries of the per-cell data cards, the universe a FILL names never declared, MODE
    missing) and the follow-up failure is not reported as a warning"""
    f = _f(case)
    if f.get("kind") != "check-raises" or f.get("cls") not in KNOCK_ON:
        return False
    st = f.get("stack") or []
    if "__update_internal_pointers" not in st:
        return False
    # an input is skipped in check mode: it fails on its own, or the inputs cannot even be split (vertical format),
    # or two objects share a number (the second is not appended)
    iso = case.get("iso") or {}
    if _first(case) is not None or iso.get("out") == "raise":
        return True
    import props.C13 as C13
    return any("is used twice" in r for r in C13.spec_read(case["text"])["invalid"])


def _particles(text):
    """(particles of the MODE input (default n), particles the IMP inputs name) read from the text"""
    import spec
    sf = spec.split_file(text, 128)
    blocks = sf["blocks"] + [[]] * (3 - len(sf["blocks"]))
    mode = None
    imp = set()
    for card in blocks[2]:
        toks = spec.tokens(card.text)
        if toks and toks[0] == "MODE":
            mode = {t.lower() for t in toks[1:]}
        if toks and toks[0].startswith("IMP:"):
            imp.update(x.lower() for x in toks[0][4:].split(",") if x)
    for card in blocks[0]:
        for m in re.finditer(r"(?i)imp\s*:\s*([a-z#|+\-/!<>%^_~@*?,\s]+?)\s*[= ]", card.text + " "):
            imp.update(x.strip().lower() for x in m.group(1).split(",") if x.strip())
    return (mode if mode is not None else {"n"}), imp


def C13_check_particle_not_in_mode(case, params):
    """check mode: an IMP input names a particle that MODE does not (or MODE is missing): the handler around
    push_to_cells (Cells.__setup_blank_cell_modifiers) only names MalformedInputError, ParticleTypeNotInProblem raises"""
    f = _f(case)
    if f.get("kind") != "check-raises" or f.get("cls") not in ("ParticleTypeNotInProblem", "ParticleTypeNotInCell"):
        return False
    if "__setup_blank_cell_modifiers" not in (f.get("stack") or []):
        return False
    mode, imp = _particles(case["text"])
    return bool(imp - mode)


def C13_check_duplicate_mode(case, params):
    """check mode: __load_data_inputs_to_object raises MalformedInputError for a second MODE input outside any handler"""
    f = _f(case)
    if f.get("kind") != "check-raises" or f.get("func") != "__load_data_inputs_to_object":
        return False
    return sum(1 for w in _data_words(case["text"]) if w == "mode") >= 2


def C13_nonpositive_number(case, params):
    """a cell number <= 0 or a negative material number is read without any error"""
    f = _f(case)
    if f.get("kind") != "accepted-malformed":
        return False
    import props.C13 as C13
    reasons = C13.spec_read(case["text"])["invalid"]
    return bool(reasons) and (reasons[0].startswith("cell number") or reasons[0].startswith("material number"))


def C13_past_terminator(case, params):
    """cards after the blank line that ends the data block are read as data inputs"""
    f = _f(case)
    if f.get("kind") != "reads-past-terminator":
        return False
    import props.C13 as C13
    return bool(C13.trailing_cards(case["text"]))


def C13_check_read_cycle(case, params):
    """check mode: a read card whose target (transitively) reads a file already being read: the MalformedInputError
    raised by the reading queue is not reported as a warning"""
    f = _f(case)
    if f.get("kind") != "check-raises" or f.get("cls") != "MalformedInputError" or f.get("func") != "read_data":
        return False
    return _read_graph_has_cycle(case)


def _read_graph_has_cycle(case):
    files = dict(case.get("files") or {})
    files[case.get("name", "case.i")] = case["text"]
    seen = set()
    todo = [case.get("name", "case.i")]
    while todo:
        n = todo.pop()
        if n in seen:
            return True
        seen.add(n)
        for t in _read_targets(files.get(n, "")):
            if t in files:
                if t in seen:
                    return True
                todo.append(t)
    return False
