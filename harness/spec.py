"""spec.py — an independent reader of the MCNP input format (MCNP 6.2 manual, ch. 2.6 / 3),
written without any MontePy concept.  It is the *oracle* of the searches: what MontePy read
and wrote is judged by what this reader says the text denotes.  (Search support only — the
claims are the Coq theorems; see DESIGN.md §14.)

Rules implemented (numbering as in DESIGN.md §3.1):
 S1 physical lines (LF/CRLF, tab -> blanks to the next multiple of 8, bytes >= 127 -> blank,
    columns beyond the limit ignored)      S2 message block   S3 title
 S4 three blocks separated by blank lines; text after the data block's blank line is ignored
 S5 comment lines   S6 '$' comments   S7 card starts / continuation (5 blanks, trailing '&')
 S8 tokens   S9 Fortran numbers (exact rationals)   S10 shortcuts nR nI nILOG xM nJ
 S11 cell geometry with MCNP precedence, truth tables
"""
import itertools
import math
import random
import re
from fractions import Fraction

REL_TOL = 1e-9


# --------------------------------------------------------------------------- S1
def physical_lines(text, width=128):
    out = []
    for raw in text.split("\n"):
        raw = raw.rstrip("\r")
        raw = raw.expandtabs(8)
        raw = "".join(ch if ord(ch) < 127 else " " for ch in raw)
        out.append(raw[:width])
    if out and out[-1] == "":
        out.pop()
    return out


# --------------------------------------------------------------------------- S5
def is_comment_line(line):
    m = re.match(r"^( {0,4})[cC]( |$)", line)
    return m is not None


def is_blank(line):
    return line.strip() == ""


def split_dollar(line):
    i = line.find("$")
    if i < 0:
        return line, None
    return line[:i], line[i + 1:]


# --------------------------------------------------------------------------- S2-S7
class Card:
    def __init__(self):
        self.lines = []        # physical lines (data lines and interior comment lines)
        self.data = []         # data parts of the lines (before '$', without '&')
        self.comments = []     # comment texts (C lines and $ comments) in order, stripped
        self.lead_comments = []

    @property
    def text(self):
        return " ".join(self.data)

    def __repr__(self):
        return f"Card({self.text!r}, comments={self.comments})"


def split_file(text, width=128):
    """-> dict(message=[lines]|None, title=str, blocks=[[Card]...] (up to 3), trailing=[lines])"""
    lines = physical_lines(text, width)
    i = 0
    message = None
    if lines and lines[0].upper().startswith("MESSAGE:"):
        message = []
        while i < len(lines) and not is_blank(lines[i]):
            message.append(lines[i])
            i += 1
        i += 1
    title = lines[i] if i < len(lines) else ""
    i += 1
    blocks = [[]]
    cur = None
    pending = []          # comment lines not yet attached
    cont_amp = False
    trailing = []
    while i < len(lines):
        line = lines[i]
        i += 1
        if is_blank(line):
            # a blank line ends the block (comment lines before it stay with the block)
            if cur is not None:
                cur = None
            if pending and blocks[-1]:
                blocks[-1][-1].comments += pending
            elif pending:
                # comments at the start of an empty block: keep on a pseudo card
                pass
            pending = []
            cont_amp = False
            if len(blocks) == 3:
                trailing = lines[i:]
                break
            blocks.append([])
            continue
        if is_comment_line(line):
            txt = re.sub(r"^ {0,4}[cC] ?", "", line).strip()
            pending.append(txt)
            continue
        data, dollar = split_dollar(line)
        is_cont = cont_amp or line[:5].strip() == ""
        # S7: the continuation mark is an "&" that ends the line's data and is preceded by a blank
        # (tied to coq/Spec/Cards.v by harness/spec_tie.py)
        amp = data.rstrip(" ").endswith(" &")
        if amp:
            data = data.rstrip(" ")[:-1]
        if is_cont and cur is not None:
            cur.comments += pending
            pending = []
            cur.lines.append(line)
            cur.data.append(data)
        else:
            cur = Card()
            cur.lead_comments = pending
            cur.comments += pending
            pending = []
            cur.lines.append(line)
            cur.data.append(data)
            blocks[-1].append(cur)
        if dollar is not None:
            cur.comments.append(dollar.strip())
        cont_amp = amp
    else:
        if pending and blocks[-1]:
            blocks[-1][-1].comments += pending
    return {"message": message, "title": title, "blocks": blocks, "trailing": trailing}


# --------------------------------------------------------------------------- S8
def tokens(card_text, cell_geometry=False):
    t = card_text.replace("=", " ")
    if cell_geometry:
        t = re.sub(r"([():#])", r" \1 ", t)
    return t.upper().split()


# --------------------------------------------------------------------------- S9
_NUM = re.compile(r"^([+-]?)(\d+\.?\d*|\.\d+)(?:[EeDd]?([+-]?\d+))?$")


def read_number(tok):
    """Fortran real/integer -> Fraction, or None"""
    m = _NUM.match(tok)
    if not m:
        return None
    sign, mant, exp = m.groups()
    # '1.5+3' style needs a sign in the exponent when there is no letter
    if exp is not None and not re.search(r"[EeDd]", tok) and exp[0] not in "+-":
        return None
    f = Fraction(mant)
    if exp:
        f *= Fraction(10) ** int(exp)
    return -f if sign == "-" else f


def close(a, b, rel=REL_TOL):
    if a == b:
        return True
    a = float(a); b = float(b)
    return abs(a - b) <= rel * max(abs(a), abs(b))


# --------------------------------------------------------------------------- S10
_SC = re.compile(r"^(\d*)(R|I|ILOG|LOG|J)$|^([+-]?[\d.]+(?:[EeDd]?[+-]?\d+)?)M$")


def expand_shortcuts(toks):
    """tokens -> list of Fraction | 'J' | str (non-numeric word kept as is).
    Interpolations keep exact rationals (linear) or floats (log)."""
    out = []
    i = 0
    n = len(toks)
    while i < n:
        t = toks[i]
        m = _SC.match(t)
        if not m:
            v = read_number(t)
            out.append(v if v is not None else t)
            i += 1
            continue
        if m.group(3) is not None:           # xM
            x = read_number(m.group(3))
            prev = out[-1] if out else None
            out.append(prev * x if isinstance(prev, Fraction) else ("BADM", t))
            i += 1
            continue
        cnt, kind = m.group(1), m.group(2)
        k = int(cnt) if cnt else 1
        if kind == "J":
            out += ["J"] * k
        elif kind == "R":
            prev = out[-1] if out else ("BADR", t)
            out += [prev] * k
        else:   # I / ILOG
            a = out[-1] if out else None
            b = read_number(toks[i + 1]) if i + 1 < n else None
            if not isinstance(a, Fraction) or b is None:
                out.append(("BADI", t))
            elif kind == "I":
                for j in range(1, k + 1):
                    out.append(a + (b - a) * j / (k + 1))
            else:
                la, lb = math.log10(float(a)), math.log10(float(b))
                for j in range(1, k + 1):
                    out.append(Fraction(10 ** (la + (lb - la) * j / (k + 1))))
        i += 1
    return out


def values_equal(a, b):
    if isinstance(a, Fraction) and isinstance(b, Fraction):
        return close(a, b)
    return a == b


def lists_equal(a, b):
    return len(a) == len(b) and all(values_equal(x, y) for x, y in zip(a, b))


# --------------------------------------------------------------------------- S11 geometry
class GeomError(Exception):
    pass


def parse_geometry(toks):
    """tokens (from tokens(..., cell_geometry=True)) -> AST
    AST: ('leaf', sign, n) | ('cell', n) | ('not', x) | ('and', a, b) | ('or', a, b)"""
    pos = [0]

    def peek():
        return toks[pos[0]] if pos[0] < len(toks) else None

    def eat():
        t = peek()
        pos[0] += 1
        return t

    def expr():
        a = term()
        while peek() == ":":
            eat()
            b = term()
            a = ("or", a, b)
        return a

    def term():
        a = factor()
        while peek() is not None and peek() not in (":", ")"):
            b = factor()
            a = ("and", a, b)
        return a

    def factor():
        t = peek()
        if t == "#":
            eat()
            if peek() == "(":
                eat()
                e = expr()
                if eat() != ")":
                    raise GeomError("missing )")
                return ("not", e)
            n = eat()
            if n is None or not re.match(r"^\d+$", n):
                raise GeomError("bad complement " + repr(n))
            return ("cell", int(n))
        if t == "(":
            eat()
            e = expr()
            if eat() != ")":
                raise GeomError("missing )")
            return e
        t = eat()
        if t is None or not re.match(r"^[+-]?\d+$", t):
            raise GeomError("bad leaf " + repr(t))
        n = int(t)
        return ("leaf", -1 if t.startswith("-") else 1, abs(n))

    e = expr()
    if pos[0] != len(toks):
        raise GeomError("trailing tokens " + repr(toks[pos[0]:]))
    return e


def geom_leaves(ast, acc=None):
    acc = set() if acc is None else acc
    k = ast[0]
    if k == "leaf":
        acc.add(("s", ast[2]))
    elif k == "cell":
        acc.add(("c", ast[1]))
    elif k == "not":
        geom_leaves(ast[1], acc)
    else:
        geom_leaves(ast[1], acc)
        geom_leaves(ast[2], acc)
    return acc


def geom_eval(ast, env):
    k = ast[0]
    if k == "leaf":
        v = env[("s", ast[2])]
        return v if ast[1] > 0 else not v
    if k == "cell":
        return not env[("c", ast[1])]
    if k == "not":
        return not geom_eval(ast[1], env)
    if k == "and":
        return geom_eval(ast[1], env) and geom_eval(ast[2], env)
    return geom_eval(ast[1], env) or geom_eval(ast[2], env)


def geom_equal(a, b, rename=None, seed=0):
    """Boolean-function equality; rename maps leaves of a (e.g. merged surfaces)."""
    if rename:
        a = geom_rename(a, rename)
        b = geom_rename(b, rename)
    la = sorted(geom_leaves(a) | geom_leaves(b))
    if len(la) <= 12:
        envs = (dict(zip(la, bits)) for bits in itertools.product([False, True], repeat=len(la)))
    else:
        rng = random.Random(seed)
        envs = (dict((l, rng.random() < 0.5) for l in la) for _ in range(4096))
    for env in envs:
        if geom_eval(a, env) != geom_eval(b, env):
            return False
    return True


def geom_rename(ast, ren):
    k = ast[0]
    if k == "leaf":
        return ("leaf", ast[1], ren.get(("s", ast[2]), ast[2]))
    if k == "cell":
        return ("cell", ren.get(("c", ast[1]), ast[1]))
    if k == "not":
        return ("not", geom_rename(ast[1], ren))
    return (k, geom_rename(ast[1], ren), geom_rename(ast[2], ren))


# --------------------------------------------------------------------------- cards
_CELL_KEY = re.compile(r"^\*?[A-Z]")


def parse_cell(card):
    """-> dict(number, material, density, geom (AST), geom_tokens, params {key: [values]})"""
    toks = tokens(card.text, cell_geometry=True)
    if len(toks) < 2:
        raise GeomError("short cell")
    number = int(toks[0])
    i = 1
    if toks[1] == "LIKE":
        raise GeomError("LIKE n BUT not supported by the oracle")
    mat = int(toks[1])
    i = 2
    dens = None
    if mat != 0:
        dens = read_number(toks[2])
        i = 3
    j = i
    while j < len(toks) and not _CELL_KEY.match(toks[j]):
        j += 1
    gt = toks[i:j]
    # a parenthesis directly after a keyword value belongs to the parameter (fill=1 (2)), not geometry
    params = {}
    key = None
    # re-tokenise the parameter tail without splitting ':' (imp:n) but keeping parentheses
    tail = " ".join(toks[j:])
    tail = re.sub(r"\s*:\s*", ":", tail)
    for t in tail.split():
        if _CELL_KEY.match(t) and read_number(t) is None and not re.match(r"^\d*(R|I|ILOG|J)$|^[\d.]+M$", t):
            key = t
            params.setdefault(key, [])
        elif key is not None:
            params[key].append(t)
    return {"number": number, "material": mat, "density": dens, "geom_tokens": gt,
            "geom": parse_geometry(gt) if gt else None, "params": params}


def parse_surface(card):
    toks = tokens(card.text)
    t0 = toks[0]
    mod = ""
    if t0[0] in "*+":
        mod = t0[0]
        t0 = t0[1:]
    number = int(t0)
    i = 1
    pointer = None
    if re.match(r"^[+-]?\d+$", toks[1]):
        pointer = int(toks[1])
        i = 2
    mn = toks[i]
    consts = expand_shortcuts(toks[i + 1:])
    return {"number": number, "modifier": mod, "pointer": pointer, "mnemonic": mn, "constants": consts}


def card_values(card, block):
    """A comparable rendering of any card: list of values after shortcut expansion."""
    if block == 0:
        c = parse_cell(card)
        params = {k: expand_shortcuts(v) for k, v in c["params"].items()}
        return ("cell", c["number"], c["material"], c["density"], c["geom"], params)
    toks = tokens(card.text)
    toks2 = []
    for t in toks:
        toks2 += [x for x in re.split(r"([()])", t) if x]
    return ("card", expand_shortcuts(toks2))


def cards_equal(a, b, block):
    """Do two cards denote the same input?  Returns (bool, why)."""
    try:
        va = card_values(a, block)
        vb = card_values(b, block)
    except (GeomError, ValueError, IndexError) as e:
        return (a.text.upper().split() == b.text.upper().split(), f"unparsed: {e}")
    if va[0] == "cell":
        _, n1, m1, d1, g1, p1 = va
        _, n2, m2, d2, g2, p2 = vb
        if n1 != n2:
            return False, "cell number"
        if m1 != m2:
            return False, "material"
        if (d1 is None) != (d2 is None) or (d1 is not None and not close(d1, d2)):
            return False, "density"
        if (g1 is None) != (g2 is None) or (g1 is not None and not geom_equal(g1, g2)):
            return False, "geometry"
        if sorted(p1) != sorted(p2):
            return False, f"parameter keys {sorted(p1)} vs {sorted(p2)}"
        for k in p1:
            if not lists_equal(p1[k], p2[k]):
                return False, f"parameter {k}"
        return True, ""
    if not lists_equal(va[1], vb[1]):
        return False, "values"
    return True, ""


def comments_of(card):
    return [c.strip() for c in card.comments if c.strip()]


def compare_files(text_a, text_b, width_a=128, width_b=128, check_comments=True):
    """Do the two files denote the same problem?  -> list of differences (empty = same)."""
    A = split_file(text_a, width_a)
    B = split_file(text_b, width_b)
    diffs = []
    ma = [l.rstrip() for l in (A["message"] or [])]
    mb = [l.rstrip() for l in (B["message"] or [])]
    if [re.sub(r"\s+", " ", x).strip().upper() for x in ma] != [re.sub(r"\s+", " ", x).strip().upper() for x in mb]:
        diffs.append(("message", ma, mb))
    if A["title"].rstrip() != B["title"].rstrip():
        diffs.append(("title", A["title"], B["title"]))
    ba = A["blocks"] + [[]] * (3 - len(A["blocks"]))
    bb = B["blocks"] + [[]] * (3 - len(B["blocks"]))
    for bi in range(3):
        ca, cb = ba[bi], bb[bi]
        if len(ca) != len(cb):
            diffs.append(("card count", bi, [c.text for c in ca], [c.text for c in cb]))
            continue
        pairs = list(zip(ca, cb))
        mism = [i for i, (x, y) in enumerate(pairs) if not cards_equal(x, y, bi)[0]]
        if mism and bi == 2:
            # same cards in another order?  (reported separately: kind 'order')
            rest = list(cb)
            perm = []
            for x in ca:
                for j, y in enumerate(rest):
                    if cards_equal(x, y, bi)[0]:
                        perm.append(y)
                        del rest[j]
                        break
                else:
                    perm = None
                    break
            if perm is not None:
                moved = [ca[i].text.split()[0].upper() for i in mism]
                diffs.append(("order", bi, moved, [c.text.split()[0] for c in ca], [c.text.split()[0] for c in cb]))
                pairs = list(zip(ca, perm))
        for x, y in pairs:
            ok, why = cards_equal(x, y, bi)
            if not ok:
                diffs.append(("card", bi, why, x.text, y.text))
        if check_comments:
            # comments are compared as the ordered list of comment texts of the block: which card a C comment
            # line between two cards "belongs" to is a convention of this reader, not of MCNP
            xa = [t for c in ca for t in comments_of(c)]
            xb = [t for c in cb for t in comments_of(c)]
            if xa != xb and sorted(xa) != sorted(xb):
                diffs.append(("comments", bi, [t for t in xa if t not in xb][:5], [t for t in xb if t not in xa][:5],
                              len(xa), len(xb)))
            elif xa != xb:
                diffs.append(("comment-order", bi, xa[:8], xb[:8]))
    return diffs
