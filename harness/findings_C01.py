"""Trigger predicates of the open C01 findings."""
import re


def _diffs(case):
    import rt
    r = rt.c01_check(case["case"])
    return r


def C01_data_order(case, params):
    """F-C01-data-card-order: MT cards are written directly after their M card and the IMP cards of several
    particles together at the first of them.  Attributed only when *every* difference is an order difference in
    the data block and the order of all other cards is unchanged."""
    r = _diffs(case)
    if r is None or r["kind"] != "denotation-differs":
        return False
    for d in r["diffs"]:
        if d[0] not in ("order", "comment-order"):
            return False
    import spec
    c = case["case"]
    return _order_only_mt_imp(c)


def _order_only_mt_imp(c):
    import mp, rt, spec
    W = c["width"]
    pr = mp.read_problem(c["text"], version=rt.VERS[W])
    out = mp.write_problem(pr, "f.i", rt.VERS[W])
    a = spec.split_file(c["text"], W)["blocks"]
    b = spec.split_file(out, W)["blocks"]
    if len(a) < 3 or len(b) < 3:
        return False

    def keys(cards):
        ks = [x.text.split()[0].upper() for x in cards if x.text.split()]
        return [k for k in ks if not re.match(r"^(MT\d+|\*?IMP:.*)$", k)]
    return keys(a[2]) == keys(b[2])


MODCARD = re.compile(r"^\*?(imp:|vol\b|u\b|lat\b|fill\b)", re.I)


def C01_imp_leading_comment(case, params):
    """F-C01-modifier-card-comments: C comment lines directly before or after a data-block cell-modifier card
    (IMP VOL U LAT FILL) are dropped or duplicated.  Attributed when removing exactly those comment lines from the
    input makes the case pass (or leaves only order differences, which are the other finding)."""
    import rt
    c = case["case"]
    lines = c["text"].split("\n")
    iscom = [bool(re.match(r"^ {0,4}[cC]( |$)", l)) for l in lines]
    drop = set()
    n = len(lines)
    i = 0
    while i < n:
        if MODCARD.match(lines[i]):
            j = i - 1
            while j >= 0 and iscom[j]:
                drop.add(j)
                j -= 1
            # the card's continuation lines, then the comments after it
            k = i + 1
            while k < n and (lines[k][:5].strip() == "" and lines[k].strip() != "" or iscom[k]):
                if iscom[k]:
                    drop.add(k)
                k += 1
        i += 1
    if not drop:
        return False
    c2 = dict(c, text="\n".join(l for i, l in enumerate(lines) if i not in drop))
    r = rt.c01_check(c2)
    if r is None:
        return True
    if r["kind"] == "denotation-differs" and all(d[0] in ("order", "comment-order") for d in r["diffs"]):
        return _order_only_mt_imp(c2)
    return False
