"""Trigger predicates of the open C01 findings."""
import re


def _diffs(case):
    import rt
    r = rt.c01_check(case["case"])
    return r


def C01_data_order(case, params):
    """F-C01-data-card-order: MT cards are written directly after their M card and the IMP cards of several
    particles together at the first of them.  Attributed only when *every* difference is an order difference in
    the data block and the order of all other cards is unchanged."""
    r = _diffs(case)
    if r is None or r["kind"] != "denotation-differs":
        return False
    import spec
    c = case["case"]
    for d in r["diffs"]:
        if d[0] not in ("order", "comment-order"):
            return False
        if d[0] == "comment-order" and str(d[1]) == "1":
            return False          # nothing is regrouped in the surface block
        if d[0] == "comment-order" and str(d[1]) == "0" and not _cell_with_split_imp(c):
            return False          # comments of the cell block only move with regrouped IMP parameters
    if not _data_block_has_feature(c) and not _cell_with_split_imp(c):
        return False
    return _order_only_mt_imp(c)


def _cell_with_split_imp(c):
    """some cell card of the INPUT has IMP parameters of several particles that are not adjacent"""
    import spec
    blocks = spec.split_file(c["text"], c["width"])["blocks"]
    for card in (blocks[0] if blocks else []):
        toks = spec.tokens(card.text)
        keys = [t for t in toks if re.match(r"^\*?[A-Z]", t) and spec.read_number(t) is None and not spec._SC.match(t)]
        idx = [i for i, k in enumerate(keys) if k.startswith("IMP:")]
        if len(idx) >= 2 and idx[-1] - idx[0] != len(idx) - 1:
            return True
    return False


def _data_block_has_feature(c):
    """the INPUT's data block has an MT card that does not directly follow its M card, or IMP cards that are not adjacent"""
    import spec
    blocks = spec.split_file(c["text"], c["width"])["blocks"]
    if len(blocks) < 3:
        return False
    names = [spec.tokens(card.text)[0] for card in blocks[2] if spec.tokens(card.text)]
    for i, nme in enumerate(names):
        m = re.match(r"^MT(\d+)$", nme)
        if m and (i == 0 or names[i - 1] != "M" + m.group(1)):
            return True
    imp = [i for i, nme in enumerate(names) if re.match(r"^\*?IMP:", nme)]
    return len(imp) >= 2 and imp[-1] - imp[0] != len(imp) - 1


def _order_only_mt_imp(c):
    import mp, rt, spec
    W = c["width"]
    pr = mp.read_problem(c["text"], version=rt.VERS[W])
    out = mp.write_problem(pr, "f.i", rt.VERS[W])
    a = spec.split_file(c["text"], W)["blocks"]
    b = spec.split_file(out, W)["blocks"]
    if len(a) < 3 or len(b) < 3:
        return False

    def keys(cards):
        ks = [x.text.split()[0].upper() for x in cards if x.text.split()]
        return [k for k in ks if not re.match(r"^(MT\d+|\*?IMP:.*)$", k)]
    return keys(a[2]) == keys(b[2])


MODCARD = re.compile(r"^\*?(imp:|vol\b|u\b|lat\b|fill\b)", re.I)


def C01_imp_leading_comment(case, params):
    """F-C01-modifier-card-comments: C comment lines directly before or after a data-block cell-modifier card
    (IMP VOL U LAT FILL) are dropped or duplicated.  Attributed when removing exactly those comment lines from the
    input makes the case pass (or leaves only order differences, which are the other finding)."""
    import rt
    c = case["case"]
    lines = c["text"].split("\n")
    iscom = [bool(re.match(r"^ {0,4}[cC]( |$)", l)) for l in lines]
    drop = set()
    n = len(lines)
    i = 0
    while i < n:
        if MODCARD.match(lines[i]):
            j = i - 1
            while j >= 0 and iscom[j]:
                drop.add(j)
                j -= 1
            # the card's continuation lines, then the comments after it
            k = i + 1
            while k < n and (lines[k][:5].strip() == "" and lines[k].strip() != "" or iscom[k]):
                if iscom[k]:
                    drop.add(k)
                k += 1
        i += 1
    if not drop:
        return False
    c2 = dict(c, text="\n".join(l for i, l in enumerate(lines) if i not in drop))
    r = rt.c01_check(c2)
    if r is None:
        return True
    if r["kind"] == "denotation-differs" and all(d[0] in ("order", "comment-order") for d in r["diffs"]):
        return _order_only_mt_imp(c2)
    return False


_MULT = re.compile(r"^\s*[+-]?(\d+\.?\d*|\.\d+)?([eE][+-]?\d+)?[mM](\s|$)")


def C01_comment_before_multiply(case, params):
    """F-C01-comment-before-multiply: a C comment line (or a '$' comment) between a value and the xM shortcut that
    multiplies it, the shortcut being the first word of the next line, is written twice (inside the card and again
    after it).  Feature: a continuation line whose first word is an xM shortcut, preceded by comment lines or by a
    line with a '$' comment.  Ablation: the same file without those comments (passes, or leaves only the order
    differences of the other finding)."""
    import rt
    c = case["case"]
    lines = c["text"].split("\n")
    W = c.get("width", 80)
    iscom = [bool(re.match(r"^ {0,4}[cC]( |$)", l.rstrip("\r").expandtabs(8))) for l in lines]
    out = list(lines)
    drop = set()
    for i, l in enumerate(lines):
        x = l.rstrip("\r").expandtabs(8)[:W]
        if iscom[i] or x[:5].strip() or not _MULT.match(x):
            continue
        j = i - 1
        while j >= 0 and iscom[j]:
            drop.add(j)
            j -= 1
        if j >= 0 and "$" in lines[j].expandtabs(8)[:W]:
            cr = "\r" if lines[j].endswith("\r") else ""
            out[j] = lines[j][:lines[j].index("$")].rstrip() + cr
            drop.add(-1 - j)                 # marks "a '$' comment removed" (no line dropped)
    if not drop:
        return False
    c2 = dict(c, text="\n".join(l for i, l in enumerate(out) if i not in drop))
    r = rt.c01_check(c2)
    if r is None:
        return True
    if r["kind"] == "denotation-differs" and all(d[0] in ("order", "comment-order") for d in r["diffs"]):
        return _order_only_mt_imp(c2)
    return False


def C01_imp_card_invented(case, params):
    """F-C01-imp-card-invented: a file that gives no importance at all (no IMP parameter, no IMP card) is written
    with additional data cards 'IMP:<p> 0.0 ...' (MontePy's default importance), which the file read does not have.
    Feature: no 'imp' outside comments; every difference is an additional IMP card.  Ablation: the same file with an
    'imp:<p>=0' parameter... is not needed: the feature and the failure shape decide."""
    import rt, spec
    c = case["case"]
    W = c.get("width", 80)
    for l in c["text"].split("\n"):
        x = l.rstrip("\r").expandtabs(8)[:W]
        if spec.is_comment_line(x):
            continue
        if re.search(r"imp", x.split("$")[0], re.I):
            return False
    r = rt.c01_check(c)
    if r is None or r.get("kind") != "denotation-differs":
        return False
    for d in r["diffs"]:
        if d[0] != "card count":
            return False
        try:
            a, b = eval(d[2]), eval(d[3])
        except Exception:
            return False
        extra = list(b)
        for x in a:
            if x in extra:
                extra.remove(x)
        if len(b) - len(a) != len(extra) or not extra or not all(re.match(r"^imp:", x, re.I) for x in extra):
            return False
    return True


def C01_amp_in_comment_text(case, params):
    """F-C01-amp-in-comment-text: a cell card whose last line is '... $ text &' (the comment TEXT ends in '&'): the
    dangling-'&' cleanup of Cell.format_for_mcnp_input (3480888) takes the '&' of the comment for a continuation mark
    and drops it.  Feature: a '$' comment ending in '&' in the cell block.  Ablation: the same file without that '&'."""
    import rt
    c = case["case"]
    W = c.get("width", 80)
    lines = c["text"].split("\n")
    out = []
    hit = False
    for l in lines:
        x = l.rstrip("\r").expandtabs(8)[:W]
        if "$" in x and x.rstrip().endswith("&"):
            cr = "\r" if l.endswith("\r") else ""
            out.append(x.rstrip()[:-1].rstrip() + cr)
            hit = True
        else:
            out.append(l)
    if not hit:
        return False
    r = rt.c01_check(dict(c, text="\n".join(out)))
    if r is None:
        return True
    if r["kind"] == "denotation-differs" and all(d[0] in ("order", "comment-order") for d in r["diffs"]):
        return _order_only_mt_imp(dict(c, text="\n".join(out)))
    return False


def C01_title_last_column(case, params):
    """F-C01-title-last-column: a title line whose last character stands exactly in the last significant column (128
    for MCNP 6.2, 80 for 5.1.60) is read completely but written cut to width - 1 characters.  Feature: the title
    (tabs expanded, trailing blanks dropped) is exactly `width` columns long.  Ablation: the same file with the last
    character of the title removed."""
    import rt
    c = case["case"]
    W = c.get("width", 80)
    lines = c["text"].split("\n")
    i = 0
    if lines and lines[0].lower().startswith("message:"):
        while i < len(lines) and lines[i].strip():
            i += 1
        i += 1
    if i >= len(lines):
        return False
    x = lines[i].rstrip("\r").expandtabs(8)[:W].rstrip()
    if len(x) != W:
        return False
    cr = "\r" if lines[i].endswith("\r") else ""
    out = lines[:i] + [x[:-1] + cr] + lines[i + 1:]
    r = rt.c01_check(dict(c, text="\n".join(out)))
    if r is None:
        return True
    if r["kind"] == "denotation-differs" and all(d[0] in ("order", "comment-order") for d in r["diffs"]):
        return _order_only_mt_imp(dict(c, text="\n".join(out)))
    return False
