"""seed_ingest.py <glob of /tmp/seed-out dirs> — confirm, store under /verif/seeded, run the property's check, print a table."""
import glob, json, os, shutil, subprocess, sys
VERIF = os.path.dirname(os.path.dirname(os.path.abspath(__file__)))
def main():
    dirs = sorted(d for pat in sys.argv[1:] for d in glob.glob(pat) if os.path.isdir(d))
    todo = []
    for d in dirs:
        n = os.path.basename(d)
        dst = os.path.join(VERIF, "seeded", n)
        if os.path.exists(dst) or not os.path.exists(os.path.join(d, "patch.diff")):
            continue
        todo.append((n, d, dst))
    procs = []
    for n, d, dst in todo:
        if not os.path.exists(os.path.join(d, "meta.json")) or not os.path.exists(os.path.join(d, "demo.py")):
            print("incomplete", n); continue
        p = subprocess.run([sys.executable, os.path.join(VERIF, "harness", "seedtest.py"), "confirm", d],
                           stdout=subprocess.PIPE, text=True)
        procs.append((n, d, dst, p))
    kept = []
    for n, d, dst, p in procs:
        out = p.stdout
        try:
            conf = json.loads(out)
        except Exception:
            print("confirm failed", n, out[-300:]); continue
        if not conf.get("confirmed"):
            print("NOT confirmed", n, {k: conf.get(k) for k in ("applies", "tests_passed", "demo_without", "demo_with")}); continue
        os.makedirs(dst, exist_ok=True)
        for f in ("patch.diff", "demo.py"):
            shutil.copy(os.path.join(d, f), dst)
        m = json.load(open(os.path.join(d, "meta.json")))
        m["confirmed_by_coordinator"] = {"ran": "harness/seedtest.py confirm: scratch worktree of /repo HEAD, git apply, MontePy suite "
                                         "(404 must pass), demo.py without (exit 0) and with the change (exit 1)", **conf}
        m["origin"] = "fresh sub-agent (later round) given only the property record, one-line summaries of earlier changes to avoid, and a scratch worktree"
        json.dump(m, open(os.path.join(dst, "meta.json"), "w"), indent=1)
        kept.append(n)
    for n in kept:
        out = subprocess.run([sys.executable, os.path.join(VERIF, "harness", "seedtest.py"), "run", n], stdout=subprocess.PIPE, text=True).stdout
        try:
            r = json.loads(out)
            for p, v in r.items():
                print(n, p, "detected" if v.get("detected") else "MISSED", "no-input" if v.get("no_failing_input") else "", (v.get("replay_summary") or "")[:160])
        except Exception:
            print(n, "run output not json", out[-300:])
if __name__ == "__main__":
    main()
