"""translate_writer.py — regenerate coq/Gen/Writer.v from the *current source* of
   montepy/mcnp_problem.py  : MCNP_Problem.write_to_file
   montepy/input_parser/input_file.py : MCNP_InputFile.__init__/path/open/__enter__/__exit__/write

Output: the step list of Model/Write.v (`writer` record): which guards, opens, format calls, writes,
terminators, child-card writes, close / replace / remove steps happen in which order and WHICH PATH
each open targets (the destination itself or the sibling temporary), plus the template of the
temporary's name.  The translator is kept dumb: it walks the statements with `ast` and accepts only
statement shapes it knows (compared by ast.dump against the shapes written below as Python text);
anything else raises TranslateError — fail closed.  The only "interpretation" it does:
  * open() is specialised to mode == "w" (tests of the form `"<c>" in mode` are decided);
  * the literal `objects_list` of write_to_file is unrolled, `objects is self.data_inputs` and
    `if terminate:` are decided per entry of that literal list;
  * in __exit__ the names that hold the temporary's path are followed (self._temp_path, a local copy):
    `<name> is not None` is decided when the name certainly still holds the path, and becomes the
    model's condition IfTemp once the name has been cleared under a condition (`temp_path = None`
    after os.replace -> step Forget);
  * local variable names are irrelevant: every local is recognised by the statement that binds it
    (renaming `fh`, `lines`, `status`, `temp_path` ... gives the same step list); parameter names of
    the public methods are part of the interface and are compared literally.

IR as Python data:  {"temp": [("L", ".")|("B",)|("P",)...], "open": [...], "body": [...], "exit": [...],
"final": [...], "post": [...]} with step codes as in Model/Write.v's wire format (GE GD OD OT CM
L<sec><osteps> CH BL CL RP<c> RM<c><t> FG<c> HW; conditions A O E P).
"""
import copy
import ast
import hashlib
import os

import vlib

GEN = os.path.join(vlib.COQ, "Gen", "Writer.v")


class TranslateError(Exception):
    pass


def _src_paths():
    root = os.path.join(vlib.REPO, "montepy")
    return (os.path.join(root, "mcnp_problem.py"), os.path.join(root, "input_parser", "input_file.py"))


def D(node):
    return ast.dump(node, annotate_fields=True, include_attributes=False)


def E(text):
    """dump of an expression written as Python text"""
    return D(ast.parse(text, mode="eval").body)


def S(text):
    """dump of a single statement written as Python text"""
    m = ast.parse(text)
    assert len(m.body) == 1
    return D(m.body[0])


class Names:
    """actual local name -> canonical role name; bound by the statement that introduces the local"""

    def __init__(self):
        self.env = {}

    def bind(self, target, role):
        if not isinstance(target, ast.Name):
            fail(target, f"expected a plain local name for `{role}`")
        cur = self.env.get(target.id)
        if cur is not None and cur != role:
            fail(target, f"local `{target.id}` is used both as `{cur}` and as `{role}`")
        for k, v in self.env.items():
            if v == role and k != target.id:
                fail(target, f"two locals (`{k}`, `{target.id}`) play the role `{role}`")
        self.env[target.id] = role

    def D(self, node):
        """dump with every bound local replaced by its role name"""
        n = copy.deepcopy(node)
        for x in ast.walk(n):
            if isinstance(x, ast.Name) and x.id in self.env:
                x.id = self.env[x.id]
            if isinstance(x, (ast.Name, ast.Attribute, ast.Tuple, ast.List, ast.Subscript, ast.Starred)):
                x.ctx = ast.Load()
        return D(n)


def fail(node, what):
    raise TranslateError(f"line {getattr(node, 'lineno', '?')}: {what}: {ast.unparse(node)[:160]!r}")


def is_docstring(st):
    return isinstance(st, ast.Expr) and isinstance(st.value, ast.Constant) and isinstance(st.value.value, str)


def find_class(tree, name):
    for n in tree.body:
        if isinstance(n, ast.ClassDef) and n.name == name:
            return n
    raise TranslateError(f"class {name} not found")


def find_method(cls, name):
    found = [n for n in cls.body if isinstance(n, ast.FunctionDef) and n.name == name]
    if len(found) != 1:
        raise TranslateError(f"method {cls.name}.{name}: found {len(found)} definitions")
    return found[0]


def arg_names(fn):
    a = fn.args
    if a.vararg or a.kwarg or a.kwonlyargs or a.posonlyargs:
        fail(fn, "unexpected parameter kinds")
    return [x.arg for x in a.args]


# ----------------------------------------------------------------------------- MCNP_InputFile
DEST_EXPRS = None  # filled by translate_input_file: dumps of expressions that denote the destination path


def calls_in(node):
    return [n for n in ast.walk(node) if isinstance(n, ast.Call)]


PURE_CALLS = {E("os.path.split"), E("os.path.abspath"), E("os.path.join"), E("os.getpid")}


def is_pure_value(node):
    """an expression without side effects on the file system: names, attributes, constants,
    f-strings, tuples and calls of os.path.split/abspath/join and os.getpid only"""
    for n in ast.walk(node):
        if isinstance(n, ast.Call):
            if D(n.func) not in PURE_CALLS:
                return False
        elif not isinstance(n, (ast.Name, ast.Attribute, ast.Constant, ast.JoinedStr, ast.FormattedValue,
                                ast.Tuple, ast.Load, ast.Store, ast.keyword)):
            return False
    return True


def translate_input_file(tree):
    cls = find_class(tree, "MCNP_InputFile")
    # --- __init__: the fields the other methods rely on
    init = find_method(cls, "__init__")
    if arg_names(init) != ["self", "path", "parent_file", "overwrite"]:
        fail(init, "__init__ parameters changed")
    init_assigns = {D(s) for s in init.body}
    for need in ("self._path = path", "self._overwrite = overwrite", "self._fh = None"):
        if S(need) not in init_assigns:
            raise TranslateError(f"MCNP_InputFile.__init__ lacks `{need}`")
    has_temp_field = S("self._temp_path = None") in init_assigns
    for s in init.body:
        if is_docstring(s):
            continue
        if not (isinstance(s, ast.Assign) and len(s.targets) == 1 and isinstance(s.targets[0], ast.Attribute)
                and D(s.targets[0].value) == E("self") and not calls_in(s.value)):
            fail(s, "__init__: statement is not a plain field initialisation")
    # --- path property: @make_prop_pointer("_path")
    path_fn = find_method(cls, "path")
    if [D(d) for d in path_fn.decorator_list] != [E('make_prop_pointer("_path")')]:
        fail(path_fn, "path is not make_prop_pointer('_path')")
    dest = {E("self.path"), E("self._path")}

    # --- open(mode="w")
    fn = find_method(cls, "open")
    if arg_names(fn) != ["self", "mode", "encoding", "replace"]:
        fail(fn, "open parameters changed")
    steps = []
    sym = {}          # dump of a target expression -> symbolic value
    temp = {"parts": None}

    def classify_path(node):
        d = D(node)
        if d in dest:
            return "D"
        if sym.get(d, (None,))[0] == "TEMP":
            return "T"
        fail(node, "open(): path argument is neither the destination nor the recognised temporary")

    def open_target(st):
        """`self._fh = open(<path>, mode, encoding=encoding)` -> "D" | "T", else None"""
        if isinstance(st, ast.Assign) and len(st.targets) == 1 and D(_load(st.targets[0])) == E("self._fh") \
                and isinstance(st.value, ast.Call) and D(st.value.func) == E("open"):
            c = st.value
            if len(c.args) != 2 or D(c.args[1]) != E("mode") or [k.arg for k in c.keywords] != ["encoding"]:
                fail(st, "open(): unexpected arguments")
            return classify_path(c.args[0])
        return None

    def sym_value(node):
        d = D(node)
        if d in sym:
            return sym[d]
        if d == E("os.path.split(os.path.abspath(self.path))") or d == E("os.path.split(os.path.abspath(self._path))"):
            return ("SPLIT",)
        if isinstance(node, ast.Call) and D(node.func) == E("os.path.join") and len(node.args) == 2 and not node.keywords:
            a0 = sym_value(node.args[0])
            if a0 == ("DIR",) and isinstance(node.args[1], ast.JoinedStr):
                parts = []
                for v in node.args[1].values:
                    if isinstance(v, ast.Constant) and isinstance(v.value, str):
                        parts.append(("L", v.value))
                    elif isinstance(v, ast.FormattedValue) and v.conversion == -1 and v.format_spec is None:
                        sv = sym_value(v.value)
                        if sv == ("BASE",):
                            parts.append(("B",))
                        elif D(v.value) == E("os.getpid()"):
                            parts.append(("P",))
                        else:
                            fail(v, "temporary name: unknown formatted value")
                    else:
                        fail(v, "temporary name: unknown f-string part")
                return ("TEMP", parts)
        return ("OPAQUE",)

    def walk_open(body):
        """returns True when a `return self` was reached"""
        for st in body:
            if is_docstring(st):
                continue
            # if "<c>" in mode:
            if isinstance(st, ast.If) and isinstance(st.test, ast.Compare) and len(st.test.ops) == 1 \
                    and isinstance(st.test.ops[0], ast.In) and isinstance(st.test.left, ast.Constant) \
                    and isinstance(st.test.left.value, str) and D(st.test.comparators[0]) == E("mode"):
                taken = st.body if st.test.left.value in "w" else st.orelse
                if walk_open(taken):
                    return True
                continue
            if isinstance(st, ast.If) and D(st.test) == E("os.path.isfile(self.path) and self._overwrite is not True"):
                if len(st.body) == 1 and isinstance(st.body[0], ast.Raise) and not st.orelse \
                        and isinstance(st.body[0].exc, ast.Call) and D(st.body[0].exc.func) == E("FileExistsError"):
                    steps.append("GE")
                    continue
                fail(st, "existence guard does not raise FileExistsError")
            if isinstance(st, ast.If) and D(st.test) == E("os.path.isdir(self.path)"):
                if len(st.body) == 1 and isinstance(st.body[0], ast.Raise) and not st.orelse \
                        and isinstance(st.body[0].exc, ast.Call) and D(st.body[0].exc.func) == E("IsADirectoryError"):
                    steps.append("GD")
                    continue
                fail(st, "directory guard does not raise IsADirectoryError")
            if isinstance(st, ast.If) and D(st.test) == E("os.path.isfile(self.path)"):
                if len(st.body) == 1 and not st.orelse and isinstance(st.body[0], ast.Expr) \
                        and isinstance(st.body[0].value, ast.Call) and D(st.body[0].value.func) == E("shutil.copymode") \
                        and len(st.body[0].value.args) == 2 and classify_path(st.body[0].value.args[0]) == "D" \
                        and classify_path(st.body[0].value.args[1]) == "T":
                    steps.append("CM")
                    continue
                fail(st, "unrecognised statement under isfile(path)")
            # self._fh = open(<path>, mode, encoding=encoding)
            if open_target(st) is not None:
                steps.append("O" + open_target(st))
                continue
            # try: self._fh = open(<a>, ...)  except OSError: [self._temp_path = None]; self._fh = open(<b>, ...); [return self]
            if isinstance(st, ast.Try) and len(st.body) == 1 and open_target(st.body[0]) is not None \
                    and len(st.handlers) == 1 and not st.orelse and not st.finalbody \
                    and st.handlers[0].type is not None \
                    and D(st.handlers[0].type) in (E("OSError"), E("IOError"), E("EnvironmentError"), E("PermissionError"),
                                                   E("Exception")):
                first = open_target(st.body[0])
                hb = list(st.handlers[0].body)
                forgot = False
                if hb and D(hb[0]) == S("self._temp_path = None"):
                    forgot = True
                    hb = hb[1:]
                if not hb or open_target(hb[0]) is None:
                    fail(st, "open(): except branch does not open a file")
                second = open_target(hb[0])
                rest = hb[1:]
                if rest and not (len(rest) == 1 and isinstance(rest[0], ast.Return) and rest[0].value is not None
                                 and D(rest[0].value) == E("self")):
                    fail(st, "open(): unrecognised statement in the except branch")
                if second == "D" and not forgot:
                    fail(st, "open(): falls back to the destination but keeps self._temp_path")
                steps.append("OE" + first + second)
                continue
            if isinstance(st, ast.Return):
                if st.value is not None and D(st.value) == E("self"):
                    return True
                fail(st, "open() returns something else than self")
            # pure bookkeeping assignments
            if isinstance(st, ast.Assign) and len(st.targets) == 1 and is_pure_value(st.value):
                tgt = st.targets[0]
                v = sym_value(st.value)
                if isinstance(tgt, ast.Tuple) and v == ("SPLIT",) and len(tgt.elts) == 2:
                    sym[D(_load(tgt.elts[0]))] = ("DIR",)
                    sym[D(_load(tgt.elts[1]))] = ("BASE",)
                    continue
                if isinstance(tgt, (ast.Name, ast.Attribute)):
                    if D(_load(tgt)) in dest:
                        fail(st, "the destination path is reassigned")
                    sym[D(_load(tgt))] = v
                    if D(_load(tgt)) == E("self._temp_path") and v[0] != "TEMP":
                        temp["parts"] = None      # the field is overwritten: no temporary for __exit__
                    if v[0] == "TEMP":
                        if D(_load(tgt)) != E("self._temp_path"):
                            fail(st, "temporary path stored somewhere else than self._temp_path")
                        temp["parts"] = v[1]
                    continue
            fail(st, "open(): unrecognised statement")
        return False

    if not walk_open(fn.body):
        fail(fn, "open('w') does not end in `return self`")

    # --- __enter__
    en = find_method(cls, "__enter__")
    if [D(s) for s in en.body] != [S("self._fh.__enter__()"), S("return self")]:
        fail(en, "__enter__ changed")

    # --- write
    wr = find_method(cls, "write")
    ok_write = (
        len(wr.body) == 1 and isinstance(wr.body[0], ast.If) and D(wr.body[0].test) == E("self._fh")
        and not wr.body[0].orelse and len(wr.body[0].body) == 2
        and D(wr.body[0].body[0]) == S('self._lineno += to_write.count("\\n")')
        and D(wr.body[0].body[1]) == S("return self._fh.write(to_write)")
    )
    if not ok_write:
        fail(wr, "MCNP_InputFile.write no longer forwards to self._fh.write")

    # --- __exit__
    ex = find_method(cls, "__exit__")
    xa = arg_names(ex)
    if len(xa) != 4 or xa[0] != "self":
        fail(ex, "__exit__ parameters changed")
    nm = Names()
    for a, role in zip(xa[1:], ("exc_type", "exc_val", "exc_tb")):   # positional by protocol
        nm.env[a] = role
    out = {"exit": [], "final": []}
    # names through which __exit__ can reach the temporary: dump -> "T" holds the path,
    # "N" certainly None, "M" cleared under a condition (the model's [pend] flag follows this name)
    tn = {}
    if temp["parts"] is not None:
        # a fallback branch of open() that clears the field: __exit__ cannot count on it
        tn[E("self._temp_path")] = "M" if any(x.startswith("OE") for x in steps) else "T"
    seen = {"try": False, "closed": False, "returned": False}

    def holders(state):
        return [k for k, v in tn.items() if v == state]

    def test_conds(test):
        """conjuncts of an if test -> set of model conditions it adds ('O', 'E', 'P'), None = always true"""
        parts = test.values if isinstance(test, ast.BoolOp) and isinstance(test.op, ast.And) else [test]
        conds = set()
        for t in parts:
            d = nm.D(t)
            if d == E("exc_type is None"):
                conds.add("O")
            elif d == E("exc_type is not None"):
                conds.add("E")
            elif isinstance(t, ast.Compare) and len(t.ops) == 1 and isinstance(t.ops[0], ast.IsNot) \
                    and D(t.comparators[0]) == E("None") and nm.D(t.left) in tn:
                st = tn[nm.D(t.left)]
                if st == "T":
                    continue          # certainly true here
                if st == "M":
                    conds.add("P")
                else:
                    return "NEVER"    # the name has certainly been cleared: dead code
            elif isinstance(t, ast.Compare) and len(t.ops) == 1 and isinstance(t.ops[0], ast.IsNot) \
                    and D(t.comparators[0]) == E("None") and nm.D(t.left) == E("self._temp_path"):
                if not has_temp_field:
                    fail(t, "self._temp_path used but not initialised in __init__")
                return "NEVER"        # open("w") never assigned a temporary: the block is dead code
            else:
                fail(t, "__exit__: unrecognised condition")
        return conds

    def combine(cond, conds, node):
        if not conds:
            return cond
        if conds == {"O", "P"} and cond == "A":
            return "Q"
        if len(conds) > 1:
            fail(node, "__exit__: conjunction of conditions the model cannot express")
        c = next(iter(conds))
        if cond == "A" or cond == c:
            return c
        fail(node, "__exit__: nested conditions the model cannot express")

    def negate(c, node):
        if c == "O":
            return "E"
        if c == "E":
            return "O"
        fail(node, "__exit__: else branch of a condition the model cannot negate")

    def temp_arg(node, cond):
        """is this expression the temporary's path (usable under [cond])?"""
        st = tn.get(nm.D(node))
        if st == "T":
            return True
        if st == "M":
            if cond in ("P", "Q"):
                return True
            fail(node, "the temporary's path may already have been cleared here")
        return False

    def walk_exit(body, cond, part, top):
        steps = out[part]
        for idx, st in enumerate(body):
            if is_docstring(st):
                continue
            if seen["returned"]:
                fail(st, "__exit__: statement after return")
            # status = self._fh.__exit__(exc_type, exc_val, exc_tb)
            if isinstance(st, ast.Assign) and len(st.targets) == 1 and isinstance(st.targets[0], ast.Name) \
                    and nm.D(st.value) == E("self._fh.__exit__(exc_type, exc_val, exc_tb)"):
                if cond != "A" or part != "exit" or seen["closed"]:
                    fail(st, "the file is closed conditionally, twice or in the finally part")
                nm.bind(st.targets[0], "status")
                seen["closed"] = True
                steps.append("CL")
                continue
            if D(st) == S("self._fh = None"):
                continue
            # <name> = None
            if isinstance(st, ast.Assign) and len(st.targets) == 1 and D(st.value) == E("None") \
                    and nm.D(st.targets[0]) in tn:
                k = nm.D(st.targets[0])
                if tn[k] == "T" and len(holders("T")) > 1:
                    tn[k] = "N"       # another name still holds the path: pure bookkeeping
                    if cond != "A":
                        fail(st, "a copy of the temporary's path is cleared conditionally")
                    continue
                if tn[k] == "T":
                    if holders("M"):
                        fail(st, "two names may hold the temporary's path")
                    steps.append("FG" + cond)
                    tn[k] = "N" if cond == "A" else "M"
                    continue
                if tn[k] == "M" and len(holders("M")) > 1 and cond == "A":
                    tn[k] = "N"       # a copy (taken above) still may hold the path: pure bookkeeping
                    continue
                if tn[k] == "M":
                    steps.append("FG" + cond)
                    if cond == "A":
                        tn[k] = "N"
                    continue
                fail(st, "the temporary's path is cleared twice")
            # <local> = <name holding the path>
            if isinstance(st, ast.Assign) and len(st.targets) == 1 and isinstance(st.targets[0], ast.Name) \
                    and nm.D(st.value) in tn:
                if tn[nm.D(st.value)] not in ("T", "M") or cond != "A":
                    fail(st, "copy of the temporary's path taken after it has been cleared")
                nm.bind(st.targets[0], "temp_path")
                tn[nm.D(st.targets[0])] = tn[nm.D(st.value)]
                continue
            if isinstance(st, ast.Assign) and len(st.targets) == 1 and isinstance(st.targets[0], ast.Name) \
                    and nm.D(st.value) == E("self._temp_path"):
                fail(st, "self._temp_path read but never assigned by open('w')")
            if isinstance(st, ast.If):
                conds = test_conds(st.test)
                if conds == "NEVER":
                    continue
                c = combine(cond, conds, st)
                walk_exit(st.body, c, part, False)
                if st.orelse:
                    if not conds:
                        fail(st, "__exit__: else branch of a condition that is always true")
                    if cond != "A":
                        fail(st, "__exit__: nested else")
                    walk_exit(st.orelse, negate(c, st), part, False)
                continue
            if isinstance(st, ast.Try):
                if not top or part != "exit" or seen["try"] or st.handlers or st.orelse or not st.finalbody:
                    fail(st, "__exit__: only one top-level try/finally without handlers is understood")
                if steps:
                    fail(st, "__exit__: steps before the try block would escape its finally part")
                seen["try"] = True
                before = dict(tn)
                walk_exit(st.body, cond, "exit", False)
                # an exception in the try part skips the rest of it: a name cleared there is only
                # *maybe* cleared when the finally part runs
                for k in tn:
                    if tn[k] == "N" and before.get(k) == "T":
                        if holders("M"):
                            fail(st, "two names may hold the temporary's path")
                        tn[k] = "M"
                walk_exit(st.finalbody, cond, "final", False)
                continue
            if isinstance(st, ast.Expr) and isinstance(st.value, ast.Call) and not st.value.keywords:
                c = st.value
                if D(c.func) == E("os.replace") and len(c.args) == 2:
                    if temp_arg(c.args[0], cond) and D(c.args[1]) in dest:
                        steps.append("RP" + cond)
                        continue
                    fail(st, "os.replace with unexpected arguments")
                if D(c.func) in (E("os.remove"), E("os.unlink")) and len(c.args) == 1:
                    if temp_arg(c.args[0], cond):
                        steps.append("RM" + cond + "T")
                        continue
                    if D(c.args[0]) in dest:
                        steps.append("RM" + cond + "D")
                        continue
                    fail(st, "os.remove with unexpected argument")
            if isinstance(st, ast.Return):
                if st.value is not None and nm.D(st.value) == E("status") and seen["closed"] and top:
                    seen["returned"] = True
                    continue
                fail(st, "__exit__ does not return the status of the file's own __exit__ at its end")
            fail(st, "__exit__: unrecognised statement")

    walk_exit(ex.body, "A", "exit", True)
    if not seen["returned"]:
        fail(ex, "__exit__ does not end in `return status`")
    return {"temp": temp["parts"] or [], "open": steps, "exit": out["exit"], "final": out["final"]}


def _load(node):
    """the same expression in Load context (for comparing assignment targets with uses)"""
    n = ast.parse(ast.unparse(node), mode="eval").body
    return n


# ----------------------------------------------------------------------------- write_to_file
SECS = None


def translate_write_to_file(tree):
    cls = find_class(tree, "MCNP_Problem")
    fn = find_method(cls, "write_to_file")
    if arg_names(fn) != ["self", "new_problem", "overwrite"]:
        fail(fn, "write_to_file parameters changed")
    secs = {
        E("[self.message]"): "M", E("[self.title]"): "T", E("self.cells"): "C",
        E("self.surfaces"): "S", E("self.data_inputs"): "D",
    }
    nm = Names()
    body = [s for s in fn.body if not is_docstring(s)]
    first = body[0] if body else fn
    if len(body) < 2 or not (isinstance(first, ast.Assign) and len(first.targets) == 1
                             and D(first.value) == E("MCNP_InputFile(new_problem, overwrite=overwrite)")):
        fail(first, "write_to_file does not start with <local> = MCNP_InputFile(new_problem, overwrite=overwrite)")
    nm.bind(first.targets[0], "new_file")
    w = body[1]
    if not isinstance(w, ast.With) or not w.items:
        fail(w, "expected the with statement")
    it0 = w.items[0]
    if nm.D(it0.context_expr) != E('new_file.open("w")') or it0.optional_vars is None:
        fail(w, 'first context manager is not <new_file>.open("w") as <local>')
    nm.bind(it0.optional_vars, "fh")
    for it in w.items[1:]:
        if not (isinstance(it.context_expr, ast.Call) and D(it.context_expr.func) == E("warnings.catch_warnings")):
            fail(w, "unknown additional context manager")
    has_wc = False
    if len(w.items) > 1 and w.items[1].optional_vars is not None:
        nm.bind(w.items[1].optional_vars, "warning_catch")
        has_wc = True

    WRITE_LINE = S('fh.write(line + "\\n")')
    WRITE_LINE_R = S('fh.write(line.rstrip() + "\\n")')
    WRITE_BLANK = S('fh.write("\\n")')
    CHILD_ITER = E("self.cells._run_children_format_for_mcnp(self.data_inputs, self.mcnp_version)")

    def is_tuple_entry(node):
        return isinstance(node, ast.Tuple) and len(node.elts) == 2 and D(node.elts[0]) in secs \
            and isinstance(node.elts[1], ast.Constant) and isinstance(node.elts[1].value, bool)

    def entries_of(node):
        if not isinstance(node, ast.List):
            fail(node, "objects_list is not built from a literal list")
        out = []
        for e in node.elts:
            if not is_tuple_entry(e):
                fail(e, "objects_list entry is not (<known section>, True|False)")
            out.append((secs[D(e.elts[0])], e.elts[1].value))
        return out

    def no_io(node):
        """a statement that neither writes nor raises: no fh.*, no raise, only getattr calls"""
        for n in ast.walk(node):
            if isinstance(n, ast.Raise):
                return False
            if isinstance(n, ast.Call) and D(n.func) != E("getattr"):
                return False
        return True

    def line_loop(st, iter_dump):
        """for <line> in <iter>: fh.write(<line> + "\n") -> "W";  ... <line>.rstrip() + "\n" -> "R";  else None"""
        if not (isinstance(st, ast.For) and isinstance(st.target, ast.Name) and not st.orelse
                and nm.D(st.iter) == iter_dump):
            return None
        body = [x for x in st.body if not is_docstring(x)]
        if len(body) != 1:
            return None
        probe = Names()
        probe.env = dict(nm.env)
        probe.env[st.target.id] = "line"
        d = probe.D(body[0])
        if d == WRITE_LINE:
            kind = "W"
        elif d == WRITE_LINE_R:
            kind = "R"
        else:
            return None
        nm.bind(st.target, "line")
        return kind

    def child_loop(st):
        k = line_loop(st, CHILD_ITER)
        return {"W": "CH", "R": "CR"}.get(k)

    def obj_loop(st):
        """for obj in objects: ...  -> ostep letters"""
        out = ""
        for s in st.body:
            if isinstance(s, ast.Assign) and len(s.targets) == 1 and isinstance(s.targets[0], ast.Name) \
                    and nm.D(s.value) == E("obj.format_for_mcnp_input(self.mcnp_version)"):
                nm.bind(s.targets[0], "lines")
                out += "F"
            elif isinstance(s, ast.If) and has_wc and nm.D(s.test) == E("warning_catch") and not s.orelse and no_io(s):
                out += "N"
            elif line_loop(s, E("lines")):
                out += line_loop(s, E("lines"))
            else:
                fail(s, "object loop: unrecognised statement")
        return out

    steps = []
    olist = None

    def section_body(stmts, sec, term):
        for s in stmts:
            if isinstance(s, ast.For) and isinstance(s.target, ast.Name) and nm.D(s.iter) == E("objects") and not s.orelse:
                nm.bind(s.target, "obj")
                steps.append("L" + sec + obj_loop(s))
            elif isinstance(s, ast.If) and nm.D(s.test) == E("objects is self.data_inputs") and not s.orelse:
                if sec == "D":
                    for c in s.body:
                        if child_loop(c):
                            steps.append(child_loop(c))
                        else:
                            fail(c, "data-block tail: unrecognised statement")
                else:
                    for c in s.body:       # same statements, not executed for this section
                        if not child_loop(c):
                            fail(c, "data-block tail: unrecognised statement")
            elif isinstance(s, ast.If) and nm.D(s.test) == E("terminate") and not s.orelse \
                    and [nm.D(x) for x in s.body] == [WRITE_BLANK]:
                if term:
                    steps.append("BL")
            else:
                fail(s, "section loop: unrecognised statement")

    for st in w.body:
        if isinstance(st, ast.Assign) and len(st.targets) == 1 and isinstance(st.targets[0], ast.Name) \
                and isinstance(st.value, ast.List) and (olist is None or nm.D(st.targets[0]) == E("objects_list")):
            nm.bind(st.targets[0], "objects_list")
            olist = entries_of(st.value)
        elif isinstance(st, ast.If) and D(st.test) == E("self.message") and not st.orelse and len(st.body) == 1 \
                and isinstance(st.body[0], ast.Expr) and isinstance(st.body[0].value, ast.Call) \
                and nm.D(st.body[0].value.func) == E("objects_list.append") and len(st.body[0].value.args) == 1 \
                and is_tuple_entry(st.body[0].value.args[0]) and secs[D(st.body[0].value.args[0].elts[0])] == "M":
            if olist is None:
                fail(st, "objects_list used before assignment")
            # the message block is optional: the model's message section is simply empty then
            olist.append(("M", st.body[0].value.args[0].elts[1].value))
        elif isinstance(st, ast.AugAssign) and isinstance(st.op, ast.Add) and nm.D(st.target) == E("objects_list"):
            if olist is None:
                fail(st, "objects_list used before assignment")
            olist += entries_of(st.value)
        elif isinstance(st, ast.For) and isinstance(st.target, ast.Tuple) and len(st.target.elts) == 2 \
                and nm.D(st.iter) == E("objects_list") and not st.orelse:
            if olist is None:
                fail(st, "objects_list used before assignment")
            nm.bind(st.target.elts[0], "objects")
            nm.bind(st.target.elts[1], "terminate")
            for sec, term in olist:
                section_body(st.body, sec, term)
        elif child_loop(st):
            steps.append(child_loop(st))
        elif nm.D(st) == WRITE_BLANK:
            steps.append("BL")
        else:
            fail(st, "with body: unrecognised statement")
    post = []
    for st in body[2:]:
        if has_wc and nm.D(st) == S("self._handle_warnings(warning_catch)"):
            post.append("HW")
        else:
            fail(st, "after the with block: unrecognised statement")
    return {"body": steps, "post": post}


# ----------------------------------------------------------------------------- output
def translate():
    p_problem, p_file = _src_paths()
    with open(p_problem) as f:
        src_problem = f.read()
    with open(p_file) as f:
        src_file = f.read()
    t_problem = ast.parse(src_problem)
    t_file = ast.parse(src_file)
    ir = {}
    ir.update(translate_input_file(t_file))
    ir.update(translate_write_to_file(t_problem))
    # digest of exactly the translated functions
    h = hashlib.sha256()
    for tree, cname, names in ((t_file, "MCNP_InputFile", ["__init__", "path", "open", "__enter__", "__exit__", "write"]),
                               (t_problem, "MCNP_Problem", ["write_to_file"])):
        cls = find_class(tree, cname)
        for n in names:
            h.update(ast.unparse(find_method(cls, n)).encode())
    ir["digest"] = h.hexdigest()[:16]
    ir["wire"] = wire(ir)
    return ir


def wire_part(p):
    return "L" + p[1].encode("latin-1").hex() if p[0] == "L" else p[0]


def wire(ir):
    def lst(xs):
        return ",".join(xs) or "-"
    return "/".join([lst([wire_part(p) for p in ir["temp"]]), lst(ir["open"]), lst(ir["body"]),
                     lst(ir["exit"]), lst(ir["final"]), lst(ir["post"])])


def coq_step(code):
    t = {"D": "Dest", "T": "Temp"}
    c = {"A": "Always", "O": "IfOk", "E": "IfErr", "P": "IfTemp", "Q": "IfOkTemp"}
    s = {"M": "SMessage", "T": "STitle", "C": "SCells", "S": "SSurfaces", "D": "SData"}
    o = {"F": "Format", "N": "Warn", "W": "WriteLines false", "R": "WriteLines true"}
    simple = {"GE": "GuardExists", "GD": "GuardIsDir", "CM": "CopyMode", "CH": "Children false", "CR": "Children true",
              "BL": "Blank",
              "CL": "Close", "HW": "HandleWarnings"}
    if code in simple:
        return simple[code]
    if code[0] == "O" and len(code) == 2:
        return f"OpenW {t[code[1]]}"
    if code[:2] == "OE" and len(code) == 4:
        return f"OpenElse {t[code[2]]} {t[code[3]]}"
    if code[:2] == "RP":
        return f"Replace {c[code[2]]}"
    if code[:2] == "RM":
        return f"Remove {c[code[2]]} {t[code[3]]}"
    if code[:2] == "FG":
        return f"Forget {c[code[2]]}"
    if code[0] == "L":
        return f"Loop {s[code[1]]} [" + "; ".join(o[x] for x in code[2:]) + "]"
    raise TranslateError("unknown step code " + code)


def coq_part(p):
    if p[0] == "L":
        return "Lit " + vlib.coq_string(p[1])
    return {"B": "Base", "P": "Pid"}[p[0]]


def coq_text(ir):
    def lst(xs):
        return "[" + ";\n     ".join(xs) + "]"
    return (
        "(* GENERATED on every run by harness/translate_writer.py from the working tree of the repository\n"
        "   under test (MCNP_Problem.write_to_file, MCNP_InputFile.open/__enter__/__exit__/write).\n"
        "   Never edit, never commit.  digest of the translated functions: " + ir["digest"] + " *)\n"
        "From Coq Require Import List String.\n"
        "From MPV Require Import Model.Write.\n"
        "Import ListNotations.\nOpen Scope string_scope.\n\n"
        "Definition write_steps : writer := {|\n"
        "  w_temp := " + lst([coq_part(p) for p in ir["temp"]]) + ";\n"
        "  w_open := " + lst([coq_step(s) for s in ir["open"]]) + ";\n"
        "  w_body := " + lst([coq_step(s) for s in ir["body"]]) + ";\n"
        "  w_exit := " + lst([coq_step(s) for s in ir["exit"]]) + ";\n"
        "  w_final := " + lst([coq_step(s) for s in ir["final"]]) + ";\n"
        "  w_post := " + lst([coq_step(s) for s in ir["post"]]) + " |}.\n\n"
        "(* the same list in the wire format the harness sends to the extracted model *)\n"
        "Definition write_steps_wire : string := " + vlib.coq_string(ir["wire"]) + ".\n"
    )


LAST = {}


def regenerate():
    """Translate and (re)write coq/Gen/Writer.v when its content changed.  On unrecognised source the
    stale Gen file is removed (so no proof about an old step list can be reused) and the error is
    re-raised."""
    try:
        ir = translate()
    except Exception:
        for ext in (".v", ".vo", ".vok", ".vos", ".glob"):
            try:
                os.remove(GEN[:-2] + ext)
            except FileNotFoundError:
                pass
        raise
    with vlib.Lock("coq"):
        changed = vlib.write_if_changed(GEN, coq_text(ir))
    ir["changed"] = changed
    LAST.clear()
    LAST.update(ir)
    return ir


if __name__ == "__main__":
    r = regenerate()
    print(r["wire"])
    print("changed:", r["changed"], "digest:", r["digest"])
