"""lay_C11.py — shared by the C11 and C20 checks:
  * summary(problem): a canonical, layout-independent description of a MontePy problem built from its public
    objects (numbers, values as float.hex, geometry truth tables, links, data-input token values);
  * relayout(rng, text, feats): line-level re-layouts of an already rendered problem that gen.render does not
    produce (continuation after '&' starting in columns 1-5, trailing blanks, comment lines after an '&' line,
    indented C comments, message block, CR LF); every feature used is recorded so that trigger predicates of known
    findings can decide from the case;
  * helpers to run the real line reader.
"""
import itertools
import os
import random
import re
import warnings

import mp

VERS = {128: (6, 2, 0), 80: (5, 1, 60)}


def hx(b):
    if isinstance(b, str):
        b = b.encode("latin-1", "replace")
    return b.hex() or "-"


def unhx(s):
    return "" if s == "-" else bytes.fromhex(s).decode("latin-1")


# ------------------------------------------------------------------------------ values
def cv(v):
    """canonical value: no float compared as a float, strings lower-cased"""
    import numpy as np
    if v is None:
        return None
    if isinstance(v, bool):
        return v
    if isinstance(v, (int, np.integer)):
        return int(v)
    if isinstance(v, (float, np.floating)):
        return float(v).hex()
    if isinstance(v, str):
        return v.lower()
    if isinstance(v, (list, tuple)):
        return [cv(x) for x in v]
    if isinstance(v, np.ndarray):
        return [cv(x) for x in v.flatten().tolist()]
    if hasattr(v, "lower") and hasattr(v, "upper") and type(v).__name__ == "Jump":
        return "J"
    if hasattr(v, "number"):
        return ("obj", type(v).__name__, v.number)
    if hasattr(v, "name") and hasattr(v, "value"):      # enum
        return str(v.name).lower()
    return str(v).lower()


def tree_values(node):
    """all semantic leaves of a syntax tree in order (padding and comments skipped)"""
    from montepy.input_parser import syntax_node as sn
    out = []

    def walk(n):
        if n is None or isinstance(n, (sn.PaddingNode, sn.CommentNode)):
            return
        if isinstance(n, str):
            if n.strip() and n.strip() not in "=":
                out.append(n.strip().lower())
            return
        if isinstance(n, sn.ValueNode):
            out.append(cv(n.value))
            return
        if isinstance(n, sn.ClassifierNode):
            for part in (n.modifier, n.prefix, n.number, n.particles):
                walk(part)
            return
        if isinstance(n, sn.ParticleNode):
            out.append(sorted(str(p).lower() for p in n.particles))
            return
        if isinstance(n, sn.ParametersNode):
            for k in sorted(n.nodes):
                out.append(("param", str(k).lower()))
                walk(n.nodes[k])
            return
        if isinstance(n, sn.GeometryTree):
            walk(n.left)
            out.append(str(n.operator).lower())
            walk(n.right)
            return
        if isinstance(n, sn.ShortcutNode):
            for x in n.nodes:
                walk(x)
            return
        if isinstance(n, sn.ListNode):
            for x in n:
                walk(x)
            return
        if isinstance(n, sn.IsotopesNode):
            for tup in n.nodes:
                for x in tup:
                    walk(x)
            return
        if isinstance(n, sn.SyntaxNode):
            for k, v in n.nodes.items():
                if k in ("seperator", "start_pad", "padding", "end_pad"):
                    continue
                walk(v)
            return
        if isinstance(n, (list, tuple)):
            for x in n:
                walk(x)
            return
        nodes = getattr(n, "nodes", None)
        if isinstance(nodes, dict):
            for v in nodes.values():
                walk(v)
        elif nodes is not None:
            for v in nodes:
                walk(v)

    walk(node)
    return out


# ------------------------------------------------------------------------------ geometry
def geom_expr(hs):
    """HalfSpace tree -> nested tuple"""
    from montepy.surfaces.half_space import UnitHalfSpace
    from montepy.geometry_operators import Operator
    if hs is None:
        return None
    if isinstance(hs, UnitHalfSpace):
        d = hs.divider
        num = d if isinstance(d, int) else d.number
        if hs.is_cell:
            return ("cell", num)
        return ("leaf", bool(hs.side), num)
    op = hs.operator
    if op == Operator.COMPLEMENT:
        return ("not", geom_expr(hs.left))
    if op == Operator.INTERSECTION:
        return ("and", geom_expr(hs.left), geom_expr(hs.right))
    if op == Operator.UNION:
        return ("or", geom_expr(hs.left), geom_expr(hs.right))
    if hs.right is None:
        return geom_expr(hs.left)                 # grouping / shift
    raise ValueError("unknown operator %r" % (op,))


def _leaves(e, acc):
    if e is None:
        return acc
    if e[0] == "leaf":
        acc.add(("s", e[2]))
    elif e[0] == "cell":
        acc.add(("c", e[1]))
    else:
        for x in e[1:]:
            _leaves(x, acc)
    return acc


def _ev(e, env):
    k = e[0]
    if k == "leaf":
        v = env[("s", e[2])]
        return v if e[1] else not v
    if k == "cell":
        return not env[("c", e[1])]
    if k == "not":
        return not _ev(e[1], env)
    if k == "and":
        return _ev(e[1], env) and _ev(e[2], env)
    return _ev(e[1], env) or _ev(e[2], env)


def geom_table(hs):
    """(sorted leaves, truth table as a bit string); > 12 leaves: 4096 assignments from a fixed seed"""
    e = geom_expr(hs)
    if e is None:
        return None
    leaves = sorted(_leaves(e, set()))
    n = len(leaves)
    if n <= 12:
        rows = itertools.product([False, True], repeat=n)
    else:
        r = random.Random("geom:%r" % (leaves,))
        rows = [[r.random() < 0.5 for _ in leaves] for _ in range(4096)]
    bits = []
    for row in rows:
        bits.append("1" if _ev(e, dict(zip(leaves, row))) else "0")
    s = "".join(bits)
    return [[list(l) for l in leaves], "%x" % int(s, 2) if s else ""]


# ------------------------------------------------------------------------------ summary
def _safe(f, default="<raises>"):
    try:
        return f()
    except Exception as e:      # a getter that raises is part of the observation
        return "<%s>" % type(e).__name__


def summary(pr):
    """canonical object-model summary of a problem"""
    out = {}
    out["title"] = _safe(lambda: pr.title.title if pr.title else None)
    parts = sorted(str(p).lower() for p in pr.mode.particles)
    out["mode"] = parts
    cells = []
    for c in pr.cells:
        d = {"number": c.number}
        d["material"] = _safe(lambda: c.material.number if c.material else 0)
        d["atom_dens"] = _safe(lambda: cv(c.atom_density) if (c.material and c.is_atom_dens) else None)
        d["mass_dens"] = _safe(lambda: cv(c.mass_density) if (c.material and not c.is_atom_dens) else None)
        d["geometry"] = _safe(lambda: geom_table(c.geometry))
        d["surfaces"] = _safe(lambda: sorted(s.number for s in c.surfaces))
        d["complements"] = _safe(lambda: sorted(x.number for x in c.complements))
        d["importance"] = _safe(lambda: {str(p).lower(): cv(c.importance[p]) for p in sorted(pr.mode.particles, key=str)})
        d["volume"] = _safe(lambda: cv(c.volume) if c.volume_is_set else None)
        d["universe"] = _safe(lambda: c.universe.number if c.universe else None)
        d["fill"] = _safe(lambda: (c.fill.universe.number if c.fill.universe else None))
        d["fill_transform"] = _safe(lambda: None if c.fill.transform is None else
                                    [("hidden" if c.fill.hidden_transform else c.fill.transform.number),
                                     cv(c.fill.transform.displacement_vector), cv(c.fill.transform.rotation_matrix),
                                     bool(c.fill.transform.is_in_degrees)])
        d["params"] = _safe(lambda: tree_values(c._tree["parameters"]) if "parameters" in c._tree.nodes else [])
        cells.append(d)
    out["cells"] = cells
    surfs = []
    for s in pr.surfaces:
        d = {"number": s.number}
        d["type"] = _safe(lambda: cv(s.surface_type))
        d["constants"] = _safe(lambda: cv(list(s.surface_constants)))
        d["transform"] = _safe(lambda: s.transform.number if s.transform else None)
        d["periodic"] = _safe(lambda: s.periodic_surface.number if s.periodic_surface else None)
        d["reflecting"] = _safe(lambda: bool(s.is_reflecting))
        d["white"] = _safe(lambda: bool(s.is_white_boundary))
        surfs.append(d)
    out["surfaces"] = surfs
    mats = []
    for m in pr.materials:
        d = {"number": m.number}
        d["atom_fraction"] = _safe(lambda: bool(m.is_atom_fraction))
        d["components"] = _safe(lambda: [[str(k).lower().split(), cv(v.fraction)] for k, v in m.material_components.items()])
        d["thermal"] = _safe(lambda: cv(list(m.thermal_scattering.thermal_scattering_laws)) if m.thermal_scattering else None)
        d["cells"] = _safe(lambda: sorted(c.number for c in m.cells))
        mats.append(d)
    out["materials"] = mats
    trs = []
    for t in pr.transforms:
        trs.append({"number": t.number, "disp": _safe(lambda: cv(t.displacement_vector)),
                    "rot": _safe(lambda: cv(t.rotation_matrix)), "deg": _safe(lambda: bool(t.is_in_degrees)),
                    "m2a": _safe(lambda: bool(t.is_main_to_aux))})
    out["transforms"] = trs
    out["universes"] = _safe(lambda: sorted([u.number, sorted(c.number for c in u.cells)] for u in pr.universes))
    data = []
    for di in pr.data_inputs:
        vals = _safe(lambda: tree_values(di._tree))
        # FCn / SCn cards are free text: a '$' there is not a comment MCNP strips, ignore what follows it
        if isinstance(vals, list):
            vals = [v.split("$")[0].strip() if isinstance(v, str) and re.match(r"^[fs]c\d", v) else v for v in vals]
        data.append([type(di).__name__, vals])
    out["data"] = data
    return out


def diff_summaries(a, b, path=""):
    """first few differing paths"""
    out = []
    if type(a) != type(b):
        return [(path, a, b)]
    if isinstance(a, dict):
        for k in sorted(set(a) | set(b), key=str):
            if k not in a or k not in b:
                out.append((path + "/" + str(k), a.get(k, "<absent>"), b.get(k, "<absent>")))
            else:
                out += diff_summaries(a[k], b[k], path + "/" + str(k))
    elif isinstance(a, list):
        if len(a) != len(b):
            out.append((path + "/len", len(a), len(b)))
        for i, (x, y) in enumerate(zip(a, b)):
            out += diff_summaries(x, y, "%s[%d]" % (path, i))
    elif a != b:
        out.append((path, a, b))
    return out[:6]


def read_summary(text, width, name="lay.i", files=None, replace=True):
    """-> ('ok', summary) | ('err', exception class name); `files`: {name: text} written next to the main file;
    replace: montepy.read_input's argument (False: the file is opened as ASCII text, _clean_line is not used)"""
    import montepy
    for fn, ft in (files or {}).items():
        mp.write_text(fn, ft)
    try:
        p = mp.write_text(name, text)
        with warnings.catch_warnings():
            warnings.simplefilter("ignore")
            pr = montepy.read_input(p, mcnp_version=VERS[width], replace=replace)
    except Exception as e:
        return ("err", type(e).__name__)
    return ("ok", summary(pr))


# ------------------------------------------------------------------------------ re-layout
C_LINE = re.compile(r"^ {0,4}[cC]( |$)")

# features that the reader without repair C11-1 is known to mishandle (one defect: continue_input =
# line.endswith(" &\n") evaluated on every line): trigger predicates of the known findings decide from these
UNTIDY = ("amp_trailing_blank", "amp_last_column", "amp_then_comment", "comment_ends_amp", "dollar_ends_amp")
SAFE = ("amp_low_indent", "trailing_blanks", "indented_comment", "crlf", "message_added", "message_removed",
        "comment_trailing_blanks", "tail_text", "tabify", "card_indent", "comment_case", "amp_at_limit", "tab_indent", "comment_tab")
FEATURES = SAFE + UNTIDY


def split_front(lines):
    """-> (front lines incl. title, rest)"""
    i = 0
    if lines and lines[0].upper().startswith("MESSAGE:"):
        while i < len(lines) and lines[i].strip():
            i += 1
        i += 1
    return lines[:i + 1], lines[i + 1:]


def xlen(l):
    return len(l.expandtabs(8))


def _tabify(l, width, r):
    """replace single blanks between two tokens of the data part by tabs while the line stays inside the limit"""
    cut = l.find("$")
    data, tail = (l, "") if cut < 0 else (l[:cut], l[cut:])
    out = data
    pos = [m.start() for m in re.finditer(r"(?<=[^ \t]) (?=[^ \t])", data)]
    k = 0
    for p in pos:
        if r[k % len(r)] < 0.7:
            cand = out[:p] + "\t" + out[p + 1:]
            if xlen(cand + tail) <= width - 1:
                out = cand
        k += 1
    return out + tail


def relayout(rng, text, allow=FEATURES, width=128):
    """-> (new text, sorted list of features used).  Only re-layouts MCNP's format allows: nothing is pushed beyond
    the column limit (the LF counts for MontePy, so lines stay below it), an '&' is never put on a line with a '$'
    comment, comment lines get their C in columns 1-5, a card never starts with a '#', a 'c ' or beyond column 5,
    the front matter (message block, title) is only touched by adding / removing a message block.
    The random draws do not depend on `allow`: switching a feature off leaves everything else as it was."""
    eol = "\r\n" if "\r\n" in text else "\n"
    lines = text.replace("\r\n", "\n").split("\n")
    if lines and lines[-1] == "":
        lines.pop()
    front, rest = split_front(lines)
    feats = set()
    out = []
    prev_amp = False          # the previous data line of this block ends in a continuing '&'
    prev_hidden = False       # ... in the last column: the reader without the repair does not see it
    com_since = False         # a comment line has followed that '&' line
    new_card = True           # the next data line starts a card
    blanks_seen = 0
    for i, l in enumerate(rest):
        r = [rng.random() for _ in range(16)]
        k4 = 1 + int(r[10] * 4)          # 1..4
        k04 = int(r[11] * 5)             # 0..4
        is_c = bool(C_LINE.match(l))
        is_blank = not l.strip()
        starts_card = (not is_c) and (not is_blank) and l[:5].strip() != "" and not prev_amp
        if is_c and prev_amp:
            com_since = True
        if prev_amp and not is_c and not is_blank:
            if "amp_then_comment" in allow and r[0] < 0.25:
                out.append(["c between", "C", "  c in between"][int(r[1] * 3)])
                com_since = True
            low_ok = "amp_low_indent" in allow and (not prev_hidden or "amp_last_column" in allow) \
                and (not com_since or "amp_then_comment" in allow)
            if low_ok and r[2] < 0.5:
                body = l.lstrip(" ")
                # the line must not turn into a comment line or a vertical-format line
                if not re.match(r"^[cC]( |$)", body) and "#" not in (" " * k04 + body)[:5] and "\t" not in body[:5] \
                        and body and not l.startswith("\t"):
                    l = " " * k04 + body
                    feats.add("amp_low_indent")
                    if prev_hidden:
                        feats.add("amp_last_column")
                    if com_since:
                        feats.add("amp_then_comment")
        if starts_card and "card_indent" in allow and r[3] < 0.15 and "\t" not in l[:6] \
                and "#" not in (" " * k4 + l)[:5] and xlen(" " * k4 + l) < width:
            l = " " * k4 + l
            feats.add("card_indent")
        if (not is_c) and (not is_blank) and not starts_card and "tab_indent" in allow and r[14] < 0.3 \
                and l.startswith("     ") and not prev_amp:
            # a continuation line indented by a tab (8 columns) and what is left of its blanks
            body = l.lstrip(" ")
            k = len(l) - len(body)
            cand = "\t" + " " * max(0, k - 8) + body
            if body and "\t" not in body and xlen(cand) < width:
                l = cand
                feats.add("tab_indent")
        if (not is_c) and (not is_blank) and "tabify" in allow and r[4] < 0.25 \
                and not re.match(r"\s*[fs]c\d", l, re.I):      # FCn / SCn are free text: blank runs are content
            l2 = _tabify(l, width, r[5:9])
            if l2 != l:
                l = l2
                feats.add("tabify")
        amp = (not is_c) and "$" not in l and l.rstrip(" ").endswith(" &")
        if amp and "amp_at_limit" in allow and r[13] < 0.2 and ("amp_last_column" in allow or "amp_low_indent" not in allow):
            body = l.rstrip(" ")[:-1].rstrip(" ")
            if body.strip() and xlen(body) + 2 <= width:
                l = body + " " * (width - xlen(body) - 1) + "&"          # the '&' in the last allowed column
                feats.add("amp_at_limit")
        hidden = amp and xlen(l.rstrip(" ")) >= width
        if (not is_blank) and not is_c and "trailing_blanks" in allow and r[9] < 0.15:
            n = [1, 2, 5][int(r[12] * 3)]
            if xlen(l) + n < width and (not amp or "amp_trailing_blank" in allow):
                l = l + " " * n
                feats.add("amp_trailing_blank" if amp else "trailing_blanks")
        if is_c and "comment_trailing_blanks" in allow and r[4] < 0.1 and xlen(l) + 3 < width:
            l = l + "   "
            feats.add("comment_trailing_blanks")
        if is_c and "comment_case" in allow and r[5] < 0.3:
            m = C_LINE.match(l)
            ci = m.end() - (2 if l[m.end() - 1:m.end()] == " " else 1)
            l = l[:ci] + l[ci].swapcase() + l[ci + 1:]
            feats.add("comment_case")
        if is_c and "indented_comment" in allow and r[6] < 0.3 and not l.startswith(" ") and xlen(" " * k4 + l) < width:
            l = " " * k4 + l
            feats.add("indented_comment")
        if is_c and "comment_ends_amp" in allow and r[7] < 0.1 and l.strip().lower() != "c" \
                and xlen(l.rstrip()) + 9 < width:
            l = l.rstrip() + " see a &"
            feats.add("comment_ends_amp")
        if is_c and "comment_tab" in allow and r[15] < 0.3:
            # a tab instead of the blank after the C of a comment line (the tab stands for the blanks up to column 9)
            m = re.match(r"^( {0,4}[cC]) (?=\S)", l)
            if m:
                cand = m.group(1) + "\t" + l[m.end():]
                if xlen(cand) < width:
                    l = cand
                    feats.add("comment_tab")
        if (not is_c) and (not is_blank) and "$" in l and "dollar_ends_amp" in allow and r[8] < 0.2 \
                and xlen(l.rstrip()) + 3 < width:
            l = l.rstrip() + " &"
            feats.add("dollar_ends_amp")
        out.append(l)
        if not is_blank:
            if not is_c:
                prev_amp = amp
                prev_hidden = hidden
                com_since = False
        else:
            prev_amp = False
            prev_hidden = False
            com_since = False
            blanks_seen += 1
    r = [rng.random() for _ in range(8)]
    if "tail_text" in allow and r[0] < 0.1 and out and not out[-1].strip() and blanks_seen >= 3:
        out += [["c end of the problem"], ["notes kept after the last blank line: not part of the problem"],
                ["c", "c  history", "c"], ["nps 5"]][int(r[1] * 4)]
        feats.add("tail_text")
    if "message_added" in allow and not front[0].upper().startswith("MESSAGE:") and r[2] < 0.2:
        front = ["MESSAGE: " + ["outp=o.txt", "datapath=/x/y"][int(r[3] * 2)], ""] + front
        feats.add("message_added")
    elif "message_removed" in allow and front[0].upper().startswith("MESSAGE:") and r[2] < 0.3:
        front = front[-1:]
        feats.add("message_removed")
    if "crlf" in allow and eol == "\n" and r[4] < 0.2:
        eol = "\r\n"
        feats.add("crlf")
    return eol.join(front + out) + eol, sorted(feats)


# ------------------------------------------------------------------------------ READ inputs
READ_FEATURES = ("read_alone_indent", "read_alone_amp", "read_case", "read_eq_blank", "read_eq_spaced", "read_tab",
                 "read_comment_between", "read_comment_before", "read_dollar", "read_indent", "read_trailing_blanks",
                 "read_break_after_eq")


def render_read(rng, fname, allow=READ_FEATURES):
    """-> (physical lines of `read file=<fname>`, features used).  The file name is content (never re-cased); the key
    words, the separator, the way the input is spread over lines and the comments around it are layout.  The random
    draws do not depend on `allow`."""
    r = [rng.random() for _ in range(16)]
    feats = set()
    kw_read, kw_file = "read", "file"
    if "read_case" in allow and r[0] < 0.5:
        kw_read = ["READ", "Read", "rEAd", "reaD"][int(r[1] * 4)]
        kw_file = ["FILE", "File", "fIle", "file"][int(r[2] * 4)]
        feats.add("read_case")
    eq = "="
    if "read_eq_blank" in allow and r[3] < 0.3:
        eq = [" ", "  "][int(r[4] * 2)]
        feats.add("read_eq_blank")
    elif "read_eq_spaced" in allow and r[3] < 0.6:
        eq = [" = ", "= ", " =", "  =  "][int(r[4] * 4)]
        feats.add("read_eq_spaced")
    sep = " "
    if "read_tab" in allow and r[5] < 0.2:
        sep = "\t"
        feats.add("read_tab")
    indent = ""
    if "read_indent" in allow and r[6] < 0.2:
        indent = " " * (1 + int(r[7] * 4))
        feats.add("read_indent")
    first = indent + kw_read
    lines = []
    if "read_comment_before" in allow and r[8] < 0.2:
        lines.append(["c the next input reads a file", "C", "  c read card"][int(r[9] * 3)])
        feats.add("read_comment_before")
    style = None
    if "read_alone_indent" in allow and r[10] < 0.3:
        style = "indent"
    elif "read_alone_amp" in allow and r[10] < 0.6:
        style = "amp"
    rest = kw_file + eq + fname
    if "read_break_after_eq" in allow and r[11] < 0.15 and eq.strip() == "=":
        rest = kw_file + eq.rstrip(" ") + "\n" + " " * (5 + int(r[12] * 4)) + fname
        feats.add("read_break_after_eq")
    if style is None:
        body = [first + sep + rest.split("\n")[0]] + rest.split("\n")[1:]
    elif style == "indent":
        body = [first, " " * (5 + int(r[12] * 6)) + rest.split("\n")[0]] + rest.split("\n")[1:]
        feats.add("read_alone_indent")
    else:
        body = [first + " &", " " * int(r[12] * 9) + rest.split("\n")[0]] + rest.split("\n")[1:]
        feats.add("read_alone_amp")
    if len(body) > 1 and "read_comment_between" in allow and r[13] < 0.3:
        body.insert(1, ["c between the key word and the file", "C", "   c"][int(r[9] * 3)])
        feats.add("read_comment_between")
    if "read_dollar" in allow and r[14] < 0.25:
        k = len(body) - 1 if (style == "amp" or r[15] < 0.5) else 0
        if not C_LINE.match(body[k]) and not body[k].rstrip().endswith("&"):
            body[k] = body[k] + " $ " + ["more data", "see the other file", "x=1"][int(r[9] * 3)]
            feats.add("read_dollar")
    if "read_trailing_blanks" in allow and r[15] < 0.2:
        body[-1] = body[-1] + "   "
        feats.add("read_trailing_blanks")
    return lines + body, sorted(feats)


# ------------------------------------------------------------------------------ real line reader
def real_syntax(path, width, with_path=False):
    """drive montepy's read_input_syntax; -> 'msg title inputs err [nwarn]' in the model's wire format"""
    from montepy.input_parser import input_syntax_reader as R
    from montepy.input_parser.input_file import MCNP_InputFile
    msg = "none"
    title = "none"
    ys = []
    err = "ok"
    with warnings.catch_warnings(record=True) as ws:
        warnings.simplefilter("always")
        try:
            for x in R.read_input_syntax(MCNP_InputFile(path), VERS[width]):
                if x is None:
                    ys.append("N")
                elif type(x).__name__ == "Message":
                    msg = "m" + (",".join(hx(l) for l in x.lines) or "-")
                elif type(x).__name__ == "Title":
                    title = "s" + hx(x.title)
                else:
                    body = "%d:%d:%s" % (x.block_type.value, x.line_number, ",".join(hx(l) for l in x.input_lines) or "-")
                    ys.append((hx(x.input_file.path) + ":" + body) if with_path else body)
        except Exception as e:
            err = type(e).__name__
    nw = sum(1 for x in ws if type(x.message).__name__ == "LineOverRunWarning")
    return "%s %s %s %s" % (msg, title, ";".join(ys) or "-", err), nw
