"""translate_globals.py — coq/Gen/Globals.v from the source tree under test (C17).

Pure `ast` walk (nothing is imported or executed) over every module of <repo>/montepy, plus the two
sly modules whose classes are bases of MontePy's parser/lexer classes (sly/yacc.py, sly/lex.py; `ext`).

It enumerates the *process-wide mutable state* through which one problem / API call could influence
another one, and for each such SITE the functions that read and write it:

  kind            what
  KModGlobal      module-level name bound to a mutable value, or rebound through `global`
  KClassAttr      class attribute bound to a mutable container (dict/list/set/...), or rebound through
                  `cls.X = ` / `Class.X = `
  KSingleton      class attribute / module name bound to an *instance* (parser singletons, the shared log);
                  the state of that instance is enumerated as KInstAttr sites
  KInstAttr       attribute `self.a` written by a method of the class family of a singleton
  KDefaultArg     mutable default argument
  KClosure        closure cell rebound with `nonlocal` by a function that escapes its owner
                  (one site per decorator application for make_prop_* factories)
  KCache          functools cache on a function

For every site and every function the access kinds are computed from the syntactic context of every
reference (kill / read / modify / escape), the call graph is resolved by name (receivers that can hold a
singleton are tracked by a small taint pass), and for every API entry point the *first* access to the
site is summarised (SKill: the entry overwrites the site with a history-independent value before it
reads it; SDirty: it may read what earlier calls left there).

Fails closed: a shape it does not recognise raises TranslatorError (the Gen file is removed).
"""
import ast
import os
import sys

try:
    import vlib
    REPO = vlib.REPO
    COQ = vlib.COQ
except Exception:  # stand-alone use
    REPO = os.environ.get("VERIF_REPO", "/repo")
    COQ = os.path.join(os.path.dirname(os.path.dirname(os.path.abspath(__file__))), "coq")

OUT = os.path.join(COQ, "Gen", "Globals.v")


class TranslatorError(Exception):
    pass


# ----------------------------------------------------------------------------------------------
# vocabulary
# ----------------------------------------------------------------------------------------------
IMM_CALLS = {"re.compile", "frozenset", "tuple", "str", "int", "float", "bool", "bytes", "range", "property",
             "staticmethod", "classmethod", "object", "type", "len", "max", "min", "abs", "sum", "repr",
             "enum.auto", "auto"}
CONTAINER_CALLS = {"list", "dict", "set", "deque", "collections.deque", "defaultdict", "collections.defaultdict",
                   "OrderedDict", "collections.OrderedDict", "Counter", "collections.Counter", "bytearray",
                   "weakref.WeakValueDictionary", "weakref.WeakKeyDictionary", "weakref.WeakSet"}
CACHE_DECOS = {"lru_cache", "cache", "functools.lru_cache", "functools.cache", "cached_property",
               "functools.cached_property", "singledispatch", "functools.singledispatch"}
KILL_METHODS = {"clear"}
# W: in-place writes that do not expose the old content; M: read-modify-write
W_METHODS = {"append", "appendleft", "extend", "extendleft", "insert", "sort", "reverse", "update", "add",
             "discard", "rotate", "__setitem__", "__iadd__", "move_to_end"}
MUT_METHODS = {"pop", "popleft", "popitem", "remove", "setdefault", "__delitem__", "intersection_update",
               "difference_update", "symmetric_difference_update", "subtract"}
SCALAR_METHODS = {"keys", "index", "count", "isdisjoint", "issubset", "issuperset", "__contains__", "__len__",
                  "__repr__", "__str__", "join", "format", "upper", "lower", "strip", "startswith", "endswith",
                  "split", "search", "match", "fullmatch", "sub", "finditer", "findall", "find", "replace"}
COPY_METHODS = {"copy", "union", "intersection", "difference", "symmetric_difference", "__or__", "__and__"}
ELEM_METHODS = {"get", "values", "items", "__getitem__", "__iter__"}
SCALAR_FUNCS = {"len", "bool", "str", "repr", "isinstance", "issubclass", "any", "all", "print", "hash", "id",
                "type", "hasattr", "callable", "format", "sum"}
COPY_FUNCS = {"list", "set", "dict", "tuple", "sorted", "frozenset", "iter", "enumerate", "zip", "reversed",
              "max", "min", "next", "map", "filter", "itertools.chain", "it.chain", "itertools.product",
              "it.product"}


def dotted(e):
    """a.b.c for Name/Attribute chains, else None"""
    parts = []
    while isinstance(e, ast.Attribute):
        parts.append(e.attr)
        e = e.value
    if isinstance(e, ast.Name):
        parts.append(e.id)
        return ".".join(reversed(parts))
    return None


# ----------------------------------------------------------------------------------------------
# program database
# ----------------------------------------------------------------------------------------------
class Mod:
    def __init__(self, name, rel, path, ext):
        self.name, self.rel, self.path, self.ext = name, rel, path, ext
        with open(path) as fh:
            self.tree = ast.parse(fh.read())
        self.imports = {}      # local name -> ("mod", dotted) | ("obj", module dotted, attr)
        self.stars = []        # modules star-imported
        self.classes = {}
        self.funcs = {}        # top-level functions
        self.top_names = {}    # name -> value node (last binding)


class Cls:
    def __init__(self, name, mod, node, outer=None):
        self.name, self.mod, self.node, self.outer = name, mod, node, outer
        self.base_names = [dotted(b) or "?" for b in node.bases]
        self.methods = {}
        self.body_func = None


class Func:
    def __init__(self, name, node, mod, cls, parent, kind):
        self.name, self.node, self.mod, self.cls, self.parent, self.kind = name, node, mod, cls, parent, kind
        self.nested = {}
        self.params = []
        self.locals = set()
        self.globals_decl = set()
        self.nonlocals_decl = set()
        self.is_generator = False
        self.decos = []
        if parent is not None and kind != "classbody":
            self.qual = parent.qual + ".<locals>." + name
        elif cls is not None:
            self.qual = f"{mod.rel}:{cls.name}.{name}"
        else:
            self.qual = f"{mod.rel}:{name}"

    def __repr__(self):
        return "<F %s>" % self.qual

    @property
    def body(self):
        n = self.node
        if isinstance(n, ast.Lambda):
            return [ast.Expr(n.body)]
        return n.body


class DB:
    def __init__(self, repo):
        self.repo = repo
        self.mods = {}
        self.classes = {}       # simple name -> Cls (montepy names win; duplicates fail closed)
        self.funcs = []         # every Func
        self.by_name = {}       # simple name -> [Func]
        self.node_func = {}     # id(ast node of def) -> Func
        self.load()

    # ---- loading
    def load(self):
        root = os.path.join(self.repo, "montepy")
        if not os.path.isdir(root):
            raise TranslatorError("no montepy package under " + self.repo)
        for dp, dn, fn in sorted(os.walk(root)):
            dn.sort()
            for f in sorted(fn):
                if f.endswith(".py"):
                    p = os.path.join(dp, f)
                    rel = os.path.relpath(p, root)
                    name = "montepy." + rel[:-3].replace(os.sep, ".")
                    if name.endswith(".__init__"):
                        name = name[: -len(".__init__")]
                    self.mods[name] = Mod(name, rel, p, False)
        sly = self.find_sly()
        for f in ("yacc.py", "lex.py"):
            p = os.path.join(sly, f)
            self.mods["sly." + f[:-3]] = Mod("sly." + f[:-3], "sly/" + f, p, True)
        for m in self.mods.values():
            self.index_module(m)
        for m in self.mods.values():
            self.index_imports(m)

    @staticmethod
    def find_sly():
        for base in sys.path + ["/venv/lib/python3.12/site-packages"]:
            p = os.path.join(base, "sly")
            if os.path.isfile(os.path.join(p, "yacc.py")):
                return p
        raise TranslatorError("sly not found")

    def add_func(self, f):
        self.funcs.append(f)
        self.by_name.setdefault(f.name, []).append(f)
        self.node_func[id(f.node)] = f

    def index_module(self, m):
        body_f = Func("<module>", m.tree, m, None, None, "modbody")
        body_f.qual = f"{m.rel}:<module>"
        m.body_func = body_f
        self.add_func(body_f)
        self.index_block(m.tree.body, m, None, body_f, top=True)
        self.fill_scope(body_f)

    def index_block(self, stmts, m, cls, parent, top=False):
        """register classes and functions defined in a statement list (recursing into compound statements)"""
        for st in stmts:
            if isinstance(st, ast.ClassDef):
                c = Cls(st.name, m, st, outer=cls)
                if not m.ext or st.name in ("Parser", "Lexer", "ParserMeta", "LexerMeta"):
                    if st.name in self.classes and not m.ext and not self.classes[st.name].mod.ext \
                            and parent.kind in ("modbody",):
                        raise TranslatorError(f"duplicate class name {st.name}")
                    if st.name not in self.classes or (self.classes[st.name].mod.ext and not m.ext):
                        if parent.kind == "modbody":
                            self.classes[st.name] = c
                    if parent.kind == "modbody":
                        m.classes[st.name] = c
                bf = Func("<classbody %s>" % st.name, st, m, c, parent, "classbody")
                bf.qual = f"{m.rel}:{st.name}.<classbody>"
                c.body_func = bf
                c.local = parent.kind != "modbody"
                self.add_func(bf)
                self.index_block(st.body, m, c, bf)
                self.fill_scope(bf)
            elif isinstance(st, (ast.FunctionDef, ast.AsyncFunctionDef)):
                in_class = parent.kind == "classbody"
                f = Func(st.name, st, m, cls if in_class else (parent.cls if parent.kind == "func" else None),
                         None if (in_class or parent.kind == "modbody") else parent, "func")
                if in_class:
                    f.is_method = True
                    cls.methods.setdefault(st.name, []).append(f)
                    if getattr(cls, "local", False):
                        f.qual = parent.qual.replace(".<classbody>", "") + "." + st.name
                else:
                    f.is_method = False
                    if parent.kind == "modbody":
                        m.funcs[st.name] = f
                    else:
                        parent.nested[st.name] = f
                f.decos = [dotted(d.func if isinstance(d, ast.Call) else d) or "?" for d in st.decorator_list]
                self.add_func(f)
                self.index_block(st.body, m, f.cls, f)
                self.fill_scope(f)
            else:
                for fld in ("body", "orelse", "finalbody"):
                    sub = getattr(st, fld, None)
                    if isinstance(sub, list) and sub and isinstance(sub[0], ast.stmt):
                        self.index_block(sub, m, cls, parent)
                for h in getattr(st, "handlers", []) or []:
                    self.index_block(h.body, m, cls, parent)
                for c in getattr(st, "cases", []) or []:
                    self.index_block(c.body, m, cls, parent)

    def fill_scope(self, f):
        n = f.node
        if isinstance(n, (ast.FunctionDef, ast.AsyncFunctionDef)):
            a = n.args
            f.params = [x.arg for x in a.posonlyargs + a.args] + ([a.vararg.arg] if a.vararg else []) + \
                       [x.arg for x in a.kwonlyargs] + ([a.kwarg.arg] if a.kwarg else [])
        for node in own_nodes(f):
            if isinstance(node, ast.Global):
                f.globals_decl.update(node.names)
            elif isinstance(node, ast.Nonlocal):
                f.nonlocals_decl.update(node.names)
            elif isinstance(node, (ast.Yield, ast.YieldFrom)):
                f.is_generator = True
        for node in own_nodes(f):
            if isinstance(node, ast.Name) and isinstance(node.ctx, (ast.Store, ast.Del)):
                f.locals.add(node.id)
            elif isinstance(node, (ast.FunctionDef, ast.AsyncFunctionDef, ast.ClassDef)) and node is not f.node:
                f.locals.add(node.name)
            elif isinstance(node, ast.alias):
                f.locals.add((node.asname or node.name).split(".")[0])
            elif isinstance(node, ast.ExceptHandler) and node.name:
                f.locals.add(node.name)
        f.locals -= f.globals_decl | f.nonlocals_decl
        f.locals |= set(f.params)

    def index_imports(self, m):
        pkg = m.name if m.path.endswith("__init__.py") else m.name.rsplit(".", 1)[0]
        for node in ast.walk(m.tree):
            if isinstance(node, ast.Import):
                for al in node.names:
                    if al.asname:
                        m.imports[al.asname] = ("mod", al.name)
                    else:
                        m.imports[al.name.split(".")[0]] = ("mod", al.name.split(".")[0])
            elif isinstance(node, ast.ImportFrom):
                base = node.module or ""
                if node.level:
                    parts = pkg.split(".")
                    parts = parts[: len(parts) - (node.level - 1)]
                    base = ".".join(parts + ([node.module] if node.module else []))
                for al in node.names:
                    if al.name == "*":
                        m.stars.append(base)
                    elif base + "." + al.name in self.mods:
                        m.imports[al.asname or al.name] = ("mod", base + "." + al.name)
                    else:
                        m.imports[al.asname or al.name] = ("obj", base, al.name)

    # ---- class relations
    def bases_of(self, c):
        out = []
        for b in c.base_names:
            bn = b.split(".")[-1]
            bc = self.classes.get(bn)
            if bc is not None and bc is not c:
                out.append(bc)
        return out

    def mro(self, c):
        """linearisation good enough for single inheritance chains (depth first, left to right, no repeats)"""
        out = [c]
        for b in self.bases_of(c):
            for x in self.mro(b):
                if x not in out:
                    out.append(x)
        return out

    def ancestors_names(self, c):
        """names of all ancestors, including external ones that are not in the database"""
        out = []
        for b in c.base_names:
            bn = b.split(".")[-1]
            if bn not in out:
                out.append(bn)
            bc = self.classes.get(bn)
            if bc is not None and bc is not c:
                for x in self.ancestors_names(bc):
                    if x not in out:
                        out.append(x)
        return out

    def related(self, a, b):
        return a is b or a in self.mro(b) or b in self.mro(a)

    def subclasses(self, c):
        return [d for d in self.classes.values() if c in self.mro(d)]


def own_nodes(f):
    """every ast node of f's own body, not descending into nested function / class definitions
    (lambdas and comprehensions belong to the enclosing function)"""
    n = f.node
    if isinstance(n, ast.Module) or isinstance(n, ast.ClassDef):
        start = list(n.body)
    elif isinstance(n, ast.Lambda):
        start = [n.body]
    else:
        start = list(n.body)
    stack = list(reversed(start))
    while stack:
        x = stack.pop()
        yield x
        if isinstance(x, (ast.FunctionDef, ast.AsyncFunctionDef, ast.ClassDef)):
            # decorators and defaults are evaluated in the enclosing scope
            for d in getattr(x, "decorator_list", []):
                stack.append(d)
            if not isinstance(x, ast.ClassDef):
                for d in x.args.defaults + [k for k in x.args.kw_defaults if k is not None]:
                    stack.append(d)
            continue
        for ch in reversed(list(ast.iter_child_nodes(x))):
            stack.append(ch)


# ----------------------------------------------------------------------------------------------
# value classification
# ----------------------------------------------------------------------------------------------
class Shape:
    """mut: the object itself can be mutated in place; elems: Shape of its elements (None = scalar/opaque
    immutable); inst: class name when it is an instance of a class of the database"""

    def __init__(self, kind, mut=False, elems=None, inst=None, alias=None, text=""):
        self.kind, self.mut, self.elems, self.inst, self.alias, self.text = kind, mut, elems, inst, alias, text

    def deep_mutable(self):
        return self.mut or (self.elems is not None and self.elems.deep_mutable())


IMM = Shape("imm")


def join_shapes(shapes):
    shapes = [s for s in shapes if s is not None]
    out = IMM
    for s in shapes:
        if s.deep_mutable() and not out.deep_mutable():
            out = s
    return out


def classify_value(db, m, e, scope_sites=None):
    """Shape of the value of expression e evaluated at import time in module m."""
    scope_sites = scope_sites or {}
    if e is None:
        return IMM
    if isinstance(e, (ast.Constant, ast.JoinedStr, ast.Lambda, ast.Compare)):
        return IMM
    if isinstance(e, (ast.BinOp,)):
        return join_shapes([classify_value(db, m, e.left, scope_sites), classify_value(db, m, e.right, scope_sites)])
    if isinstance(e, ast.UnaryOp):
        return classify_value(db, m, e.operand, scope_sites)
    if isinstance(e, ast.BoolOp):
        return join_shapes([classify_value(db, m, v, scope_sites) for v in e.values])
    if isinstance(e, ast.IfExp):
        return join_shapes([classify_value(db, m, e.body, scope_sites), classify_value(db, m, e.orelse, scope_sites)])
    if isinstance(e, ast.Tuple):
        el = join_shapes([classify_value(db, m, x, scope_sites) for x in e.elts])
        return Shape("tuple", False, el if el.deep_mutable() else None)
    if isinstance(e, (ast.List, ast.Set)):
        el = join_shapes([classify_value(db, m, x, scope_sites) for x in e.elts])
        return Shape("container", True, el if el.deep_mutable() else None)
    if isinstance(e, ast.Dict):
        el = join_shapes([classify_value(db, m, x, scope_sites) for x in e.values if x is not None])
        return Shape("container", True, el if el.deep_mutable() else None)
    if isinstance(e, (ast.ListComp, ast.SetComp)):
        el = classify_value(db, m, e.elt, scope_sites)
        return Shape("container", True, el if el.deep_mutable() else None)
    if isinstance(e, ast.DictComp):
        el = classify_value(db, m, e.value, scope_sites)
        return Shape("container", True, el if el.deep_mutable() else None)
    if isinstance(e, ast.GeneratorExp):
        return Shape("container", True, None)
    if isinstance(e, ast.Starred):
        return classify_value(db, m, e.value, scope_sites)
    if isinstance(e, (ast.Name, ast.Attribute)):
        d = dotted(e)
        if d is None:
            # attribute of a call etc.: e.g. sly.yacc._decorator is dotted; anything else is opaque
            raise TranslatorError(f"{m.rel}:{e.lineno}: unrecognised value shape {ast.unparse(e)}")
        if d in scope_sites:
            return Shape("alias", scope_sites[d].shape.mut, scope_sites[d].shape.elems, alias=scope_sites[d])
        last = d.split(".")[-1]
        head = d.split(".")[0]
        if len(d.split(".")) == 2 and head in db.classes:
            # Class.attr : alias of a class attribute when that is a site (resolved later by name)
            return Shape("classattr-alias", False, None, text=d)
        return Shape("ref", False, None, text=d)     # class / function / enum member / imported constant
    if isinstance(e, ast.Call):
        d = dotted(e.func)
        if d is None:
            raise TranslatorError(f"{m.rel}:{e.lineno}: unrecognised call shape {ast.unparse(e)[:80]}")
        last = d.split(".")[-1]
        if d in IMM_CALLS or last in ("compile",) and d.startswith("re."):
            return IMM
        if d in CONTAINER_CALLS or last in ("deque", "defaultdict", "OrderedDict"):
            el = join_shapes([classify_value(db, m, a, scope_sites) for a in e.args])
            return Shape("container", True, el.elems if el.deep_mutable() else None)
        c = db.classes.get(last)
        if c is not None:
            return Shape("instance", True, Shape("opaque", True), inst=c.name)
        if last and last[0].isupper():
            # instance of a class that is not in the database (third party / stdlib)
            return Shape("instance", True, Shape("opaque", True), inst="?" + d)
        raise TranslatorError(f"{m.rel}:{e.lineno}: unrecognised module/class level call {ast.unparse(e)[:80]}")
    if isinstance(e, ast.Subscript):
        return Shape("ref", False, None, text=ast.unparse(e))
    raise TranslatorError(f"{m.rel}:{getattr(e, 'lineno', 0)}: unrecognised value shape {type(e).__name__}")


# ----------------------------------------------------------------------------------------------
# sites
# ----------------------------------------------------------------------------------------------
class Site:
    def __init__(self, kind, name, shape, mod, cls=None, attr=None, owner=None, lineno=0):
        self.kind, self.name, self.shape, self.mod, self.cls, self.attr = kind, name, shape, mod, cls, attr
        self.owner = owner          # Func for default args / closure cells
        self.lineno = lineno
        self.acc = []               # (Func, acc kind, lineno)
        self.holders = []           # KInstAttr: singleton sites whose instance carries the attribute
        self.extra = {}
        self.id = None

    def __repr__(self):
        return "<Site %s %s>" % (self.kind, self.name)


def bindings_of_block(stmts):
    """(target name, value node, lineno) for every Name binding in a module / class body
    (descending into if/try/with/for at that level)"""
    for st in stmts:
        if isinstance(st, ast.Assign):
            for t in st.targets:
                for n in ([t] if isinstance(t, ast.Name) else
                          [x for x in ast.walk(t) if isinstance(x, ast.Name)] if isinstance(t, (ast.Tuple, ast.List)) else []):
                    yield n.id, (st.value if isinstance(t, ast.Name) else None), st.lineno
        elif isinstance(st, ast.AnnAssign):
            if isinstance(st.target, ast.Name) and st.value is not None:
                yield st.target.id, st.value, st.lineno
        elif isinstance(st, ast.AugAssign):
            if isinstance(st.target, ast.Name):
                yield st.target.id, None, st.lineno
        elif isinstance(st, (ast.If, ast.Try, ast.With, ast.For, ast.While)):
            for fld in ("body", "orelse", "finalbody"):
                yield from bindings_of_block(getattr(st, fld, []) or [])
            for h in getattr(st, "handlers", []) or []:
                yield from bindings_of_block(h.body)


def enumerate_sites(db):
    sites = []
    # --- module level and class level bindings
    for m in db.mods.values():
        scope = {}
        for name, val, ln in bindings_of_block(m.tree.body):
            if val is None:
                continue
            if m.ext:
                continue
            if name.startswith("__") and name.endswith("__"):
                continue        # __all__, __name__, __version__: interpreter conventions, never used as state
            sh = classify_value(db, m, val, scope)
            m.top_names[name] = sh
            if sh.kind == "alias":
                continue
            if sh.deep_mutable():
                kind = "KSingleton" if sh.kind == "instance" else "KModGlobal"
                s = Site(kind, f"{m.rel}:{name}", sh, m, attr=name, lineno=ln)
                scope[name] = s
                sites.append(s)
        m.site_scope = scope
        for c in list(m.classes.values()):
            cscope = {}
            c.site_scope = cscope
            for name, val, ln in bindings_of_block(c.node.body):
                if val is None:
                    continue
                try:
                    sh = classify_value(db, m, val, cscope)
                except TranslatorError:
                    if m.ext:
                        continue
                    raise
                if sh.kind in ("alias",):
                    cscope[name] = sh.alias
                    sh.alias.extra.setdefault("aliases", []).append(f"{c.name}.{name}")
                    continue
                if sh.kind == "classattr-alias":
                    c.__dict__.setdefault("attr_aliases", {})[name] = sh.text
                    continue
                if sh.deep_mutable():
                    kind = "KSingleton" if sh.kind == "instance" else "KClassAttr"
                    s = Site(kind, f"{m.rel}:{c.name}.{name}", sh, m, cls=c, attr=name, lineno=ln)
                    cscope[name] = s
                    if m.ext:
                        s.extra["ext"] = True
                    sites.append(s)
    # resolve Class.attr aliases (MCNP_Parser.tokens = MCNP_Lexer.tokens)
    for c in db.classes.values():
        for name, text in getattr(c, "attr_aliases", {}).items():
            cn, an = text.split(".")
            tgt = db.classes[cn]
            ts = getattr(tgt, "site_scope", {}).get(an)
            if ts is not None:
                c.site_scope[name] = ts
                ts.extra.setdefault("aliases", []).append(f"{c.name}.{name}")
    # --- default arguments
    for f in db.funcs:
        n = f.node
        if not isinstance(n, (ast.FunctionDef, ast.AsyncFunctionDef)) or f.mod.ext:
            continue
        a = n.args
        pos = a.posonlyargs + a.args
        pairs = list(zip(pos[len(pos) - len(a.defaults):], a.defaults)) + \
            [(k, d) for k, d in zip(a.kwonlyargs, a.kw_defaults) if d is not None]
        for arg, d in pairs:
            sh = classify_value(db, f.mod, d, getattr(f.mod, "site_scope", {}))
            if sh.kind == "ref":
                # a name: the default is whatever that module level name is bound to
                t = f.mod.top_names.get(sh.text)
                if t is None:
                    for sm in f.mod.stars:
                        if sm in db.mods and sh.text in db.mods[sm].top_names:
                            t = db.mods[sm].top_names[sh.text]
                if t is not None:
                    sh = t
            if sh.kind == "alias":
                continue     # the default IS a module-level site: uses of the parameter are uses of that site
            if sh.deep_mutable():
                s = Site("KDefaultArg", f"{f.qual}({arg.arg}=)", sh, f.mod, attr=arg.arg, owner=f, lineno=n.lineno)
                sites.append(s)
    # --- caches
    for f in db.funcs:
        if f.mod.ext:
            continue
        for d in f.decos:
            if d in CACHE_DECOS or d.split(".")[-1] in ("lru_cache", "cache", "cached_property"):
                s = Site("KCache", f"{f.qual}@{d}", Shape("container", True), f.mod, owner=f,
                         lineno=f.node.lineno)
                s.extra["per_instance"] = d.endswith("cached_property")
                sites.append(s)
    return sites


# ----------------------------------------------------------------------------------------------
# references and access kinds
# ----------------------------------------------------------------------------------------------
def rhs_shape(e):
    """tolerant shape of a run-time right-hand side (instance attributes, closure cells)"""
    if isinstance(e, ast.Constant):
        return IMM
    if isinstance(e, (ast.UnaryOp,)) and isinstance(e.operand, ast.Constant):
        return IMM
    if isinstance(e, (ast.Compare, ast.JoinedStr)):
        return IMM
    if isinstance(e, ast.Tuple) and all(rhs_shape(x) is IMM for x in e.elts):
        return IMM
    if isinstance(e, (ast.List, ast.Set, ast.Dict, ast.ListComp, ast.SetComp, ast.DictComp)):
        return Shape("container", True, Shape("opaque", True))
    return Shape("opaque", True, Shape("opaque", True))


class Analyzer:
    def __init__(self, db, sites):
        self.db = db
        self.sites = [s for s in sites if not s.extra.get("ext")]
        self.attr_sites = {}
        for s in self.sites:
            if s.kind in ("KClassAttr", "KSingleton") and s.cls is not None:
                self.attr_sites.setdefault(s.attr, []).append(s)
        self.parents = {}          # id(node) -> parent node
        self.node_acc = {}         # id(node) -> [(site, kind)]
        self.func_of_node = {}
        self.own = {}
        for f in db.funcs:
            nodes = list(own_nodes(f))
            self.own[f] = nodes
            roots = f.body if not isinstance(f.node, (ast.Module, ast.ClassDef)) else f.node.body
            for r in roots:
                self.parents[id(r)] = f.node
            for n in nodes:
                for ch in ast.iter_child_nodes(n):
                    self.parents[id(ch)] = n
        self.warnings = []

    # ---------------- scoping
    def self_name(self, f):
        """name of the instance / class parameter of a method, else None"""
        g = f
        if getattr(g, "is_method", False) and g.params and "staticmethod" not in g.decos:
            return g.params[0]
        return None

    def enclosing_method(self, f):
        g = f
        while g is not None:
            if getattr(g, "is_method", False):
                return g
            g = g.parent
        return None

    def is_local(self, f, name):
        g = f
        while g is not None and g.kind == "func":
            if name in g.locals and name not in g.globals_decl:
                return True
            if name in g.globals_decl:
                return False
            g = g.parent
        return False

    def resolve_module(self, m, d):
        """module object denoted by dotted name d in module m, else None"""
        parts = d.split(".")
        tgt = m.imports.get(parts[0])
        cur = None
        if tgt and tgt[0] == "mod":
            cur = tgt[1]
        elif tgt and tgt[0] == "obj" and (tgt[1] + "." + tgt[2]) in self.db.mods:
            cur = tgt[1] + "." + tgt[2]
        elif parts[0] == "montepy":
            cur = "montepy"
        if cur is None:
            return None
        for p in parts[1:]:
            if cur + "." + p in self.db.mods:
                cur = cur + "." + p
            else:
                return None
        return self.db.mods.get(cur)

    def resolve_class(self, f, e):
        """class denoted by an expression (Name / dotted chain ending in a class name), else None"""
        d = dotted(e)
        if d is None:
            return None
        last = d.split(".")[-1]
        if isinstance(e, ast.Name) and self.is_local(f, last):
            return None
        c = self.db.classes.get(last)
        return c

    def name_site(self, f, name):
        """module-level site a bare name refers to inside f"""
        if f.kind == "classbody":
            s = getattr(f.cls, "site_scope", {}).get(name)
            if s is not None:
                return s
        if self.is_local(f, name):
            return None
        m = f.mod
        s = getattr(m, "site_scope", {}).get(name)
        if s is not None:
            return s
        t = m.imports.get(name)
        if t and t[0] == "obj" and t[1] in self.db.mods:
            return getattr(self.db.mods[t[1]], "site_scope", {}).get(t[2])
        for sm in m.stars:
            if sm in self.db.mods:
                s = getattr(self.db.mods[sm], "site_scope", {}).get(name)
                if s is not None:
                    return s
        return None

    def attr_site(self, f, node):
        """sites an Attribute node may refer to"""
        attr = node.attr
        out = []
        # module attribute
        d = dotted(node.value)
        if d is not None:
            mm = self.resolve_module(f.mod, d)
            if mm is not None:
                s = getattr(mm, "site_scope", {}).get(attr)
                return [s] if s is not None else []
        cands = self.attr_sites.get(attr, [])
        if not cands:
            return []
        meth = self.enclosing_method(f)
        v = node.value
        recv_cls = None
        if isinstance(v, ast.Name) and meth is not None and v.id == self.self_name(meth) and not self.is_shadowed(f, meth, v.id):
            recv_cls = meth.cls
        elif isinstance(v, ast.Call) and dotted(v.func) == "type" and len(v.args) == 1:
            a = v.args[0]
            if isinstance(a, ast.Name) and meth is not None and a.id == self.self_name(meth):
                recv_cls = meth.cls
        elif isinstance(v, ast.Attribute) and v.attr == "__class__":
            recv_cls = meth.cls if meth is not None else None
        else:
            c = self.resolve_class(f, v)
            if c is not None:
                recv_cls = c
        for s in cands:
            if recv_cls is None or getattr(recv_cls, "local", False):
                out.append(s)
            elif self.db.related(recv_cls, s.cls) or s in getattr(recv_cls, "site_scope", {}).values():
                out.append(s)
        return out

    def is_shadowed(self, f, meth, name):
        g = f
        while g is not None and g is not meth:
            if name in g.locals:
                return True
            g = g.parent
        return False

    # ---------------- use classification
    def parent(self, n):
        return self.parents.get(id(n))

    def use_kinds(self, node, shape, f, depth=0):
        """access kinds of one reference occurrence `node` (an expression whose value is the site object,
        or an element of it, of the given shape)"""
        if depth > 6:
            return {"E"} if shape.deep_mutable() else {"R"}
        esc = {"E"} if shape.deep_mutable() else {"R"}
        el = shape.elems
        el_mut = el is not None and el.deep_mutable()
        p = self.parent(node)
        if p is None:
            return {"R"}
        if isinstance(p, ast.Attribute) and p.value is node:
            gp = self.parent(p)
            if isinstance(gp, ast.Call) and gp.func is p:
                mname = p.attr
                if not shape.mut and not el_mut:
                    return {"R"}
                if shape.kind in ("instance", "opaque") and shape.mut:
                    # method call on an instance: the call graph follows it; here only a read of the binding
                    if mname in KILL_METHODS and shape.kind == "opaque":
                        return {"K"}
                    if mname in MUT_METHODS and shape.kind == "opaque":
                        return {"M"}
                    if mname in W_METHODS and shape.kind == "opaque":
                        return {"W"}
                    if shape.kind == "instance":
                        return {"R"}
                if mname in KILL_METHODS:
                    return {"K"} if shape.mut else {"R"}
                if mname in MUT_METHODS:
                    return {"M"} if shape.mut else {"R"}
                if mname in W_METHODS:
                    return {"W"} if shape.mut else {"R"}
                if mname in SCALAR_METHODS:
                    return {"R"}
                if mname in COPY_METHODS:
                    if not el_mut:
                        return {"R"}
                    return {"R"} | self.use_kinds(gp, Shape("fresh", False, el), f, depth + 1)
                if mname in ELEM_METHODS:
                    if not el_mut:
                        return {"R"}
                    if mname in ("get", "__getitem__"):
                        return {"R"} | self.use_kinds(gp, el, f, depth + 1)
                    return {"R"} | self.use_kinds(gp, Shape("fresh", False, el), f, depth + 1)
                return {"R"} | esc
            if isinstance(p.ctx, (ast.Store, ast.Del)):
                return {"W"} if shape.mut else {"R"}
            if shape.kind in ("instance", "opaque"):
                # attribute of the object: an element of unknown shape
                return {"R"} | self.use_kinds(p, Shape("opaque", True, Shape("opaque", True)), f, depth + 1)
            return {"R"}
        if isinstance(p, ast.Subscript) and p.value is node:
            if isinstance(p.ctx, (ast.Store, ast.Del)):
                if not shape.mut:
                    return {"R"}
                if isinstance(self.parent(p), ast.AugAssign):
                    return {"M"}
                return {"W"} if isinstance(p.ctx, ast.Store) else {"M"}
            if not el_mut:
                return {"R"}
            return {"R"} | self.use_kinds(p, el, f, depth + 1)
        if isinstance(p, ast.Subscript):        # used as an index
            return {"R"}
        if isinstance(p, (ast.Compare, ast.BoolOp, ast.UnaryOp, ast.FormattedValue, ast.JoinedStr, ast.Assert,
                          ast.Expr)):
            if isinstance(p, ast.BoolOp):
                # `a or b` evaluates to one of its operands
                return {"R"} | (self.use_kinds(p, shape, f, depth + 1) if shape.deep_mutable() else set())
            return {"R"}
        if isinstance(p, (ast.If, ast.While)) and p.test is node:
            return {"R"}
        if isinstance(p, ast.IfExp):
            if p.test is node:
                return {"R"}
            return {"R"} | (self.use_kinds(p, shape, f, depth + 1) if shape.deep_mutable() else set())
        if isinstance(p, (ast.For, ast.AsyncFor)) and p.iter is node:
            return {"R"} | (self.target_uses(p.target, el, f, depth) if el_mut else set())
        if isinstance(p, ast.comprehension) and p.iter is node:
            return {"R"} | (self.target_uses(p.target, el, f, depth) if el_mut else set())
        if isinstance(p, ast.Starred):
            return {"R"} | ({"E"} if el_mut else set())
        if isinstance(p, ast.keyword):
            call = self.parent(p)
            if p.arg is None:
                return {"R"} | ({"E"} if el_mut else set())
            return self.arg_use(call, node, shape, f, depth, kw=p.arg)
        if isinstance(p, ast.Call):
            if p.func is node:
                return {"R"}
            return self.arg_use(p, node, shape, f, depth)
        if isinstance(p, ast.BinOp):
            return {"R"} | ({"E"} if el_mut else set())
        if isinstance(p, ast.AugAssign):
            if p.target is node:
                return {"M"} if shape.mut else {"R"}
            return {"R"} | ({"E"} if el_mut else set())
        if isinstance(p, (ast.Assign, ast.AnnAssign)) and getattr(p, "value", None) is node:
            tgts = p.targets if isinstance(p, ast.Assign) else [p.target]
            out = {"R"}
            for t in tgts:
                if isinstance(t, ast.Name) and self.is_local(f, t.id):
                    out |= self.alias_uses(t.id, node, shape, f, depth)
                elif isinstance(t, (ast.Tuple, ast.List)) and not el_mut:
                    pass
                else:
                    out |= esc
            return out
        if isinstance(p, ast.NamedExpr) and p.value is node:
            return {"R"} | self.alias_uses(p.target.id, node, shape, f, depth) | self.use_kinds(p, shape, f, depth + 1)
        if isinstance(p, (ast.Return, ast.Yield, ast.YieldFrom, ast.Await, ast.Tuple, ast.List, ast.Set, ast.Dict,
                          ast.withitem, ast.Raise, ast.Lambda, ast.ListComp, ast.SetComp, ast.DictComp,
                          ast.GeneratorExp)):
            return {"R"} | esc
        if isinstance(p, ast.Delete):
            return {"M"}
        if isinstance(p, ast.Slice):
            return {"R"}
        return {"R"} | esc

    def target_uses(self, target, el, f, depth):
        """loop variable(s) bound to elements of shape el"""
        if isinstance(target, ast.Name):
            return self.alias_uses(target.id, target, el, f, depth)
        # tuple unpacking of an element: its parts are elements of the element
        out = set()
        sub = el.elems if (el is not None and el.elems is not None) else None
        if sub is None or not sub.deep_mutable():
            # e.g. for k, v in d.items(): the pair is fresh, v is an element
            names = [x for x in ast.walk(target) if isinstance(x, ast.Name)]
            for x in names:
                out |= self.alias_uses(x.id, x, el, f, depth)
            return out
        return {"E"}

    def alias_uses(self, name, at, shape, f, depth):
        """uses of a local name that was bound to the object"""
        if not shape.deep_mutable():
            return set()
        out = set()
        for n in self.own[f]:
            if isinstance(n, ast.Name) and n.id == name and isinstance(n.ctx, ast.Load) and n is not at:
                out |= self.use_kinds(n, shape, f, depth + 1)
        # nested functions that use the name as a free variable
        for g in f.nested.values():
            for n in self.own[g]:
                if isinstance(n, ast.Name) and n.id == name and name not in g.locals:
                    out |= {"E"}
        return out

    def arg_use(self, call, node, shape, f, depth, kw=None):
        d = dotted(call.func) or ""
        last = d.split(".")[-1]
        el = shape.elems
        el_mut = el is not None and el.deep_mutable()
        if d in SCALAR_FUNCS or d in ("copy.deepcopy", "deepcopy"):
            return {"R"}
        if d in COPY_FUNCS or d in ("copy.copy",):
            if not el_mut:
                return {"R"}
            return {"R"} | self.use_kinds(call, Shape("fresh", False, el), f, depth + 1)
        if not shape.deep_mutable():
            return {"R"}
        # follow the argument into the parameters of the functions the call may reach
        callees = self.resolve_call(call, f)
        if not callees:
            return {"R", "E"}
        out = {"R"}
        for g in callees:
            if not isinstance(g.node, (ast.FunctionDef, ast.AsyncFunctionDef)):
                out |= {"E"}
                continue
            pname = None
            if kw is not None:
                pname = kw if kw in g.params else None
            else:
                idx = call.args.index(node)
                params = list(g.params)
                if getattr(g, "is_method", False) and "staticmethod" not in g.decos and \
                        isinstance(call.func, ast.Attribute):
                    params = params[1:]
                elif g.name == "__init__":
                    params = params[1:]
                if idx < len(params):
                    pname = params[idx]
            if pname is None:
                out |= {"E"}
                continue
            out |= self.alias_uses(pname, None, shape, g, depth + 1)
        return out

    # ---------------- singleton families and taint
    def setup_families(self):
        db = self.db
        self.singletons = [s for s in self.sites if s.kind == "KSingleton"]
        self.family_of_site = {}
        self.family_classes = set()
        for s in self.singletons:
            c = db.classes.get(s.shape.inst or "")
            if c is None:
                # instance of a class outside the database: its state cannot be enumerated
                raise TranslatorError(f"{s.name}: singleton of a class outside the analysed sources ({s.shape.inst})")
            self.family_of_site[s] = c
            for k in db.mro(c):
                self.family_classes.add(k)
        self.param_taint = {}      # (Func, param name) -> set of class names
        self.prop_funcs = {}       # attr name -> {"get": [Func], "set": [Func]}
        for f in db.funcs:
            if not getattr(f, "is_method", False):
                continue
            decos = f.decos
            if "property" in decos or any(d.startswith("make_prop_") or d.endswith(".make_prop_pointer") or
                                          d.endswith(".make_prop_val_node") for d in decos):
                self.prop_funcs.setdefault(f.name, {"get": [], "set": []})["get"].append(f)
            for d in decos:
                if d.endswith(".setter") or d.endswith(".deleter"):
                    self.prop_funcs.setdefault(f.name, {"get": [], "set": []})["set"].append(f)

    def taint_of(self, e, f, seen=None):
        """set of singleton class names expression e may evaluate to an instance of"""
        out = set()
        if isinstance(e, ast.Attribute):
            for s in self.attr_site(f, e):
                if s.kind == "KSingleton":
                    out.add(self.family_of_site[s].name)
            return out
        if isinstance(e, ast.Name):
            meth = self.enclosing_method(f)
            if meth is not None and e.id == self.self_name(meth) and "classmethod" not in meth.decos \
                    and not self.is_shadowed(f, meth, e.id) and meth.cls in self.family_classes:
                for s in self.singletons:
                    if meth.cls in self.db.mro(self.family_of_site[s]):
                        out.add(self.family_of_site[s].name)
                return out
            g = f
            while g is not None:
                if (g, e.id) in self.param_taint:
                    out |= self.param_taint[(g, e.id)]
                g = g.parent
            seen = seen or set()
            if (f, e.id) in seen:
                return out
            seen.add((f, e.id))
            for n in self.own[f]:
                if isinstance(n, ast.Assign) and any(isinstance(t, ast.Name) and t.id == e.id for t in n.targets):
                    out |= self.taint_of(n.value, f, seen)
            return out
        if isinstance(e, ast.IfExp):
            return self.taint_of(e.body, f, seen) | self.taint_of(e.orelse, f, seen)
        return out

    def methods_named(self, cls, name):
        """methods found by attribute lookup of `name` on an instance of cls (first definer in the MRO)"""
        for k in self.db.mro(cls):
            if name in k.methods:
                return list(k.methods[name])
        return []

    def all_entries(self):
        return self._entries

    def resolve_call(self, call, f):
        db = self.db
        fn = call.func
        out = []
        if isinstance(fn, ast.Name):
            n = fn.id
            g = f
            while g is not None:
                if n in g.nested:
                    return [g.nested[n]]
                g = g.parent
            if self.is_local(f, n):
                t = self.taint_of(fn, f)
                if t:
                    for k in t:
                        out += self.methods_named(db.classes[k], "__call__")
                    return out
                return ["<dynamic>"]
            return self.resolve_global_callable(f.mod, n)
        if isinstance(fn, ast.Attribute):
            m = fn.attr
            v = fn.value
            if isinstance(v, ast.Call) and dotted(v.func) == "super":
                meth = self.enclosing_method(f)
                if meth is not None and meth.cls is not None:
                    cands = set()
                    # the instance may be of any subclass: every class after meth.cls in some MRO
                    for k in db.mro(meth.cls)[1:]:
                        if m in k.methods:
                            return list(k.methods[m])
                return []
            t = self.taint_of(v, f)
            if t:
                for k in sorted(t):
                    out += self.methods_named(db.classes[k], m)
                return dedup(out)
            d = dotted(v)
            if d is not None:
                mm = self.resolve_module(f.mod, d)
                if mm is not None:
                    return self.resolve_global_callable(mm, m, qualified=True)
            meth = self.enclosing_method(f)
            if isinstance(v, ast.Name) and meth is not None and v.id == self.self_name(meth) \
                    and not self.is_shadowed(f, meth, v.id):
                for k in db.classes.values():
                    if db.related(k, meth.cls) and m in k.methods:
                        out += k.methods[m]
                if getattr(meth.cls, "local", False):
                    out += [g for g in db.by_name.get(m, []) if getattr(g, "is_method", False)]
                return dedup(out)
            c = self.resolve_class(f, v)
            if c is not None:
                r = self.methods_named(c, m)
                if r:
                    return r
            if isinstance(v, ast.Name) and not self.is_local(f, v.id) and v.id not in f.mod.imports \
                    and v.id not in f.mod.funcs and v.id not in db.classes and self.name_site(f, v.id) is None:
                return []       # a builtin (ValueError.__init__, str.join, ...)
            # by name
            for g in db.by_name.get(m, []):
                if getattr(g, "is_method", False) or (g.parent is None and g.kind == "func"):
                    out.append(g)
            return dedup(out)
        if isinstance(fn, (ast.Call, ast.Subscript, ast.Lambda, ast.IfExp, ast.BoolOp)):
            return ["<dynamic>"]
        return []

    def resolve_global_callable(self, m, n, qualified=False):
        db = self.db
        if n in m.funcs:
            return [m.funcs[n]]
        if n in m.classes:
            return self.ctor(m.classes[n])
        t = m.imports.get(n)
        if t and t[0] == "obj" and t[1] in db.mods:
            return self.resolve_global_callable(db.mods[t[1]], t[2])
        if t and t[0] == "obj":
            return []           # imported from outside the analysed sources
        for sm in m.stars:
            if sm in db.mods:
                r = self.resolve_global_callable(db.mods[sm], n)
                if r:
                    return r
        if n in db.classes and not qualified:
            return self.ctor(db.classes[n])
        return []

    def ctor(self, c):
        return self.methods_named(c, "__init__") + self.methods_named(c, "__new__")

    def builtin_dunder(self, call, f):
        """len(x) / iter(x) / str(x) ... on a receiver that may be a singleton"""
        d = dotted(call.func)
        table = {"len": "__len__", "str": "__str__", "repr": "__repr__", "iter": "__iter__", "bool": "__bool__",
                 "next": "__next__", "hash": "__hash__"}
        out = []
        if d in table and call.args:
            for k in self.taint_of(call.args[0], f):
                out += self.methods_named(self.db.classes[k], table[d])
                if d == "bool":
                    out += self.methods_named(self.db.classes[k], "__len__")
        return out

    def propagate_taint(self):
        changed = True
        rounds = 0
        while changed and rounds < 20:
            changed = False
            rounds += 1
            for f in self.db.funcs:
                for n in self.own[f]:
                    if not isinstance(n, ast.Call):
                        continue
                    targs = [(i, self.taint_of(a, f)) for i, a in enumerate(n.args)]
                    tkw = [(k.arg, self.taint_of(k.value, f)) for k in n.keywords if k.arg]
                    if not any(t for _, t in targs) and not any(t for _, t in tkw):
                        continue
                    for g in self.resolve_call(n, f):
                        if g == "<dynamic>" or not isinstance(g.node, (ast.FunctionDef, ast.AsyncFunctionDef)):
                            continue
                        params = list(g.params)
                        if (getattr(g, "is_method", False) and "staticmethod" not in g.decos) :
                            params = params[1:]
                        for i, t in targs:
                            if t and i < len(params):
                                cur = self.param_taint.setdefault((g, params[i]), set())
                                if not t <= cur:
                                    cur |= t
                                    changed = True
                        for k, t in tkw:
                            if t and k in g.params:
                                cur = self.param_taint.setdefault((g, k), set())
                                if not t <= cur:
                                    cur |= t
                                    changed = True


def dedup(l):
    out = []
    for x in l:
        if x not in out:
            out.append(x)
    return out


def prescan_dynamic(an):
    """state created or rebound at run time: Class.x = v, cls.x = v, type(self).x = v, module.x = v,
    `global x` without a module-level binding, setattr(Class, name, v)"""
    db = an.db
    new = {}
    for f in db.funcs:
        if f.mod.ext:
            continue
        meth = an.enclosing_method(f)
        for n in an.own[f]:
            if isinstance(n, ast.Attribute) and isinstance(n.ctx, (ast.Store, ast.Del)):
                v = n.value
                tgt = None
                if isinstance(v, ast.Name) and meth is not None and "classmethod" in meth.decos \
                        and meth.params and v.id == meth.params[0]:
                    tgt = ("class", meth.cls)
                elif isinstance(v, ast.Call) and dotted(v.func) == "type":
                    tgt = ("class", meth.cls if meth is not None else None)
                elif isinstance(v, ast.Attribute) and v.attr == "__class__":
                    tgt = ("class", meth.cls if meth is not None else None)
                else:
                    c = an.resolve_class(f, v)
                    if c is not None:
                        tgt = ("class", c)
                    else:
                        d = dotted(v)
                        mm = an.resolve_module(f.mod, d) if d else None
                        if mm is not None:
                            tgt = ("module", mm)
                if tgt is None:
                    continue
                if an.attr_site(f, n):
                    continue
                if tgt[0] == "class":
                    c = tgt[1]
                    cname = c.name if c is not None else "?"
                    key = ("c", cname, n.attr)
                    if key not in new:
                        s = Site("KClassAttr", f"{(c.mod.rel if c else f.mod.rel)}:{cname}.{n.attr}",
                                 Shape("opaque", True, Shape("opaque", True)), c.mod if c else f.mod, cls=c,
                                 attr=n.attr, lineno=n.lineno)
                        s.extra["dynamic"] = True
                        new[key] = s
                        if c is not None:
                            c.site_scope[n.attr] = s
                        an.attr_sites.setdefault(n.attr, []).append(s)
                        an.sites.append(s)
                else:
                    mm = tgt[1]
                    key = ("m", mm.name, n.attr)
                    if key not in new and not mm.ext:
                        s = Site("KModGlobal", f"{mm.rel}:{n.attr}", Shape("opaque", True, Shape("opaque", True)),
                                 mm, attr=n.attr, lineno=n.lineno)
                        s.extra["dynamic"] = True
                        new[key] = s
                        mm.site_scope[n.attr] = s
                        an.sites.append(s)
            elif isinstance(n, ast.Name) and isinstance(n.ctx, (ast.Store, ast.Del)) and n.id in f.globals_decl:
                mm = f.mod
                if n.id not in mm.site_scope:
                    s = Site("KModGlobal", f"{mm.rel}:{n.id}", Shape("opaque", True, Shape("opaque", True)), mm,
                             attr=n.id, lineno=n.lineno)
                    s.extra["dynamic"] = True
                    mm.site_scope[n.id] = s
                    an.sites.append(s)
            elif isinstance(n, ast.Call) and dotted(n.func) in ("setattr", "delattr") and n.args:
                v = n.args[0]
                c = an.resolve_class(f, v)
                is_cls = isinstance(v, ast.Name) and meth is not None and "classmethod" in meth.decos \
                    and meth.params and v.id == meth.params[0]
                d = dotted(v)
                mm = an.resolve_module(f.mod, d) if d else None
                if c is None and not is_cls and mm is None:
                    continue           # setattr(self, ...) / setattr(obj, ...): heap objects
                cname = c.name if c is not None else (meth.cls.name if is_cls else mm.rel)
                key = ("s", cname)
                if key not in new:
                    s = Site("KClassAttr", f"{f.mod.rel}:{cname}.<setattr>", Shape("opaque", True), f.mod, cls=c,
                             attr="<setattr>", lineno=n.lineno)
                    s.extra["dynamic"] = True
                    new[key] = s
                    an.sites.append(s)
                new[key].acc.append((f, "W", n.lineno))
                an.node_acc.setdefault(id(n), []).append((new[key], "W"))


# ----------------------------------------------------------------------------------------------
# collecting accesses
# ----------------------------------------------------------------------------------------------
def store_kind(an, node, f):
    """kind of a rebinding of the site: K unless the new value is computed from the old one"""
    p = an.parent(node)
    if isinstance(p, ast.AugAssign):
        return "M"
    return "K"


def collect(an):
    db = an.db

    def rec(site, f, kind, node):
        site.acc.append((f, kind, getattr(node, "lineno", 0)))
        an.node_acc.setdefault(id(node), []).append((site, kind))

    # ---- instance attributes of singleton families
    inst_attr = {}     # attr -> {"stores": [(f, node)], "classes": set()}
    for c in an.family_classes:
        for ms in c.methods.values():
            for meth in ms:
                sn = an.self_name(meth)
                if sn is None or "classmethod" in meth.decos:
                    continue
                for g in [meth] + all_nested(meth):
                    for n in an.own[g]:
                        if isinstance(n, ast.Attribute) and isinstance(n.value, ast.Name) and n.value.id == sn \
                                and not an.is_shadowed(g, meth, sn) and isinstance(n.ctx, (ast.Store, ast.Del)):
                            e = inst_attr.setdefault(n.attr, {"stores": [], "classes": set()})
                            e["stores"].append((g, n))
                            e["classes"].add(c)
    inst_sites = {}
    for a, e in sorted(inst_attr.items()):
        shapes = []
        for g, n in e["stores"]:
            p = an.parent(n)
            while isinstance(p, (ast.Tuple, ast.List)):
                p = an.parent(p)
            if isinstance(p, ast.Assign):
                shapes.append(rhs_shape(p.value))
            elif isinstance(p, ast.AnnAssign) and p.value is not None:
                shapes.append(rhs_shape(p.value))
            else:
                shapes.append(Shape("opaque", True, Shape("opaque", True)))
        sh = join_shapes(shapes)
        ext = all(c.mod.ext for c in e["classes"])
        first = sorted(e["classes"], key=lambda c: c.name)[0]
        s = Site("KInstAttr", "<%s>.%s" % ("|".join(sorted(c.name for c in e["classes"])), a), sh, first.mod,
                 cls=first, attr=a, lineno=e["stores"][0][1].lineno)
        s.extra["ext"] = ext
        s.extra["classes"] = e["classes"]
        for hs in an.singletons:
            if any(c in db.mro(an.family_of_site[hs]) for c in e["classes"]):
                s.holders.append(hs)
        consts = set()
        allconst = True
        for g, n in e["stores"]:
            p = an.parent(n)
            if isinstance(p, ast.Assign) and isinstance(p.value, ast.Constant):
                consts.add(repr(p.value.value))
            else:
                allconst = False
        s.extra["const_writes"] = sorted(consts) if allconst else None
        inst_sites[a] = s
        an.sites.append(s)

    for f in db.funcs:
        meth = an.enclosing_method(f)
        sn = an.self_name(meth) if meth is not None else None
        for n in an.own[f]:
            # ---------- bare names: module-level sites
            if isinstance(n, ast.Name):
                s = an.name_site(f, n.id)
                if s is None:
                    continue
                if isinstance(n.ctx, ast.Store):
                    if f.kind in ("modbody", "classbody"):
                        rec(s, f, "D", n)
                    else:
                        rec(s, f, store_kind(an, n, f), n)
                elif isinstance(n.ctx, ast.Del):
                    rec(s, f, "M" if f.kind == "func" else "D", n)
                elif s.kind != "KSingleton":
                    for k in sorted(an.use_kinds(n, s.shape, f)):
                        rec(s, f, k, n)
            # ---------- attributes: module attrs, class attrs, instance attrs of singletons
            elif isinstance(n, ast.Attribute):
                for s in an.attr_site(f, n):
                    is_self = isinstance(n.value, ast.Name) and n.value.id == sn and meth is not None \
                        and "classmethod" not in meth.decos and not an.is_shadowed(f, meth, sn)
                    if isinstance(n.ctx, (ast.Store, ast.Del)):
                        p = an.parent(n)
                        if is_self and not isinstance(p, ast.AugAssign):
                            rec(s, f, "I", n)       # instance attribute shadows the class attribute
                        elif isinstance(p, ast.AugAssign) and s.shape.mut and s.kind != "KSingleton":
                            rec(s, f, "M", n)
                        else:
                            rec(s, f, "K" if not isinstance(p, ast.AugAssign) else "M", n)
                    elif s.kind != "KSingleton":
                        for k in sorted(an.use_kinds(n, s.shape, f)):
                            rec(s, f, k, n)
                s = inst_sites.get(n.attr)
                if s is not None:
                    recv_ok = False
                    if isinstance(n.value, ast.Name) and meth is not None and n.value.id == sn \
                            and not an.is_shadowed(f, meth, sn):
                        recv_ok = any(db.related(meth.cls, c) for c in s.extra["classes"]) and \
                            meth.cls in an.family_classes
                    else:
                        t = an.taint_of(n.value, f)
                        recv_ok = any(any(c in db.mro(db.classes[k]) for c in s.extra["classes"]) for k in t)
                    if recv_ok:
                        if isinstance(n.ctx, ast.Store):
                            rec(s, f, store_kind(an, n, f), n)
                        elif isinstance(n.ctx, ast.Del):
                            rec(s, f, "M", n)
                        else:
                            for k in sorted(an.use_kinds(n, s.shape, f)):
                                rec(s, f, k, n)
    # ---- default arguments
    for s in [x for x in an.sites if x.kind == "KDefaultArg"]:
        f = s.owner
        for n in an.own[f]:
            if isinstance(n, ast.Name) and n.id == s.attr and isinstance(n.ctx, ast.Load):
                for k in sorted(an.use_kinds(n, s.shape, f)):
                    rec(s, f, k, n)
    # ---- caches: every call of the function reads and fills the cache
    for s in [x for x in an.sites if x.kind == "KCache"]:
        rec(s, s.owner, "M", s.owner.node)
    collect_closures(an, rec)


def all_nested(f):
    out = []
    for g in f.nested.values():
        out.append(g)
        out += all_nested(g)
    return out


def escapes(an, h):
    """is the function object h used other than by calling it by name in its parent?"""
    par = h.parent
    if par is None:
        return True
    for n in an.own[par]:
        if isinstance(n, ast.Name) and n.id == h.name and isinstance(n.ctx, ast.Load):
            p = an.parent(n)
            if not (isinstance(p, ast.Call) and p.func is n):
                return True
    # decorated nested functions are handed to their decorator
    if getattr(h.node, "decorator_list", None):
        return True
    return False


def collect_closures(an, rec):
    db = an.db
    cells = {}     # (owner Func, var) -> [writer funcs]
    for g in db.funcs:
        if g.mod.ext or not g.nonlocals_decl:
            continue
        for v in sorted(g.nonlocals_decl):
            owner = g.parent
            while owner is not None and v not in owner.locals:
                owner = owner.parent
            if owner is None:
                raise TranslatorError(f"{g.qual}: nonlocal {v} without an owner")
            cells.setdefault((owner, v), []).append(g)
    for (owner, v), writers in sorted(cells.items(), key=lambda kv: (kv[0][0].qual, kv[0][1])):
        esc = False
        for g in writers:
            h = g
            while h is not None and h is not owner:
                if escapes(an, h):
                    esc = True
                h = h.parent
        if not esc:
            continue         # the cell dies with the call of its owner (e.g. read_data's block counter)
        # the guard of every rebinding
        guards = []
        for g in writers:
            for n in an.own[g]:
                if isinstance(n, ast.Name) and n.id == v and isinstance(n.ctx, ast.Store):
                    guards.append(guard_of(an, n, v))
        guard = guards[0] if guards and all(x == guards[0] for x in guards) else "any"
        apps = factory_applications(an, owner, v) if owner.parent is None and owner.kind == "func" else None
        if apps is None:
            apps = [(owner.qual, None, owner.mod, owner.node.lineno)]
        for name, init, mod, ln in apps:
            if init is None:
                live, init_txt = True, "?"
            else:
                init_txt = ast.unparse(init)
                empty = (isinstance(init, ast.Tuple) and not init.elts) or \
                        (isinstance(init, ast.Call) and dotted(init.func) == "tuple" and not init.args)
                if isinstance(init, ast.Constant) and init.value is None and guard_none_skips(an, owner, v, writers):
                    continue        # with types=None no setter is generated at all
                if guard == "empty_tuple":
                    live = empty
                    if not empty and not isinstance(init, (ast.Tuple, ast.Name, ast.Attribute, ast.Constant)):
                        live = True      # cannot evaluate the guard on this declaration
                else:
                    live = True
            s = Site("KClosure", f"{owner.qual}.<cell {v}>@{name}", Shape("cell", False), mod, attr=v,
                     owner=owner, lineno=ln)
            s.extra.update(app=name, init=init_txt, init_node=init, guard=guard, live_write=live,
                           writers=[g.qual for g in writers])
            an.sites.append(s)
            for g in writers:
                # reads and the (guarded) rebinding, in source order
                for n in an.own[g]:
                    if isinstance(n, ast.Name) and n.id == v:
                        if isinstance(n.ctx, ast.Store):
                            if live:
                                s.acc.append((g, "K?", n.lineno))
                        else:
                            s.acc.append((g, "R", n.lineno))


def guard_of(an, n, v):
    """recognise   if isinstance(v, tuple) and len(v) == 0:  v = ...   """
    p = an.parent(n)
    while p is not None and not isinstance(p, (ast.If, ast.FunctionDef, ast.AsyncFunctionDef)):
        p = an.parent(p)
    if isinstance(p, ast.If):
        t = ast.unparse(p.test).replace(" ", "")
        if t == f"isinstance({v},tuple)andlen({v})==0":
            return "empty_tuple"
    return "any"


def guard_none_skips(an, owner, v, writers):
    """are all writers defined under `if v is not None:` ?"""
    for g in writers:
        h = g
        ok = False
        node = h.node
        p = an.parent(node)
        while p is not None and not isinstance(p, (ast.FunctionDef, ast.AsyncFunctionDef)):
            if isinstance(p, ast.If) and ast.unparse(p.test).replace(" ", "") == f"{v}isnotNone":
                ok = True
            p = an.parent(p)
        if not ok:
            return False
    return True


def factory_applications(an, owner, v):
    """decorator applications  @owner(...)  in class bodies: (Class.prop, initial value of parameter v)"""
    db = an.db
    if v not in owner.params:
        return None
    idx = owner.params.index(v)
    a = owner.node.args
    pos = a.posonlyargs + a.args
    defaults = dict(zip([x.arg for x in pos[len(pos) - len(a.defaults):]], a.defaults))
    out = []
    for f in db.funcs:
        if f.mod.ext or not isinstance(f.node, (ast.FunctionDef, ast.AsyncFunctionDef)):
            continue
        for d in f.node.decorator_list:
            if isinstance(d, ast.Call) and (dotted(d.func) or "").split(".")[-1] == owner.name:
                init = None
                if idx < len(d.args):
                    init = d.args[idx]
                for k in d.keywords:
                    if k.arg == v:
                        init = k.value
                if init is None:
                    init = defaults.get(v)
                cname = f.cls.name if f.cls is not None else "?"
                out.append((f"{cname}.{f.name}", init, f.mod, f.node.lineno))
    return out


# ----------------------------------------------------------------------------------------------
# evaluation order, call graph, first-access summaries
# ----------------------------------------------------------------------------------------------
def ordered(node, cond=False):
    """sub-expressions of a statement/expression in (approximate) evaluation order: (node, conditional)"""
    if node is None:
        return
    if isinstance(node, (ast.FunctionDef, ast.AsyncFunctionDef, ast.ClassDef)):
        for d in node.decorator_list:
            yield from ordered(d, cond)
        return
    if isinstance(node, ast.Lambda):
        yield from ordered(node.body, True)
        return
    if isinstance(node, ast.Assign):
        yield from ordered(node.value, cond)
        for t in node.targets:
            yield from ordered(t, cond)
        return
    if isinstance(node, ast.AugAssign):
        yield from ordered(node.value, cond)
        yield from ordered(node.target, cond)
        return
    if isinstance(node, ast.AnnAssign):
        yield from ordered(node.value, cond)
        yield from ordered(node.target, cond)
        return
    if isinstance(node, ast.BoolOp):
        yield from ordered(node.values[0], cond)
        for v in node.values[1:]:
            yield from ordered(v, True)
        yield node, cond
        return
    if isinstance(node, ast.IfExp):
        yield from ordered(node.test, cond)
        yield from ordered(node.body, True)
        yield from ordered(node.orelse, True)
        return
    if isinstance(node, (ast.ListComp, ast.SetComp, ast.GeneratorExp, ast.DictComp)):
        first = True
        for g in node.generators:
            yield from ordered(g.iter, cond if first else True)
            first = False
            for i in g.ifs:
                yield from ordered(i, True)
        if isinstance(node, ast.DictComp):
            yield from ordered(node.key, True)
            yield from ordered(node.value, True)
        else:
            yield from ordered(node.elt, True)
        return
    if isinstance(node, ast.Call):
        yield from ordered(node.func, cond)
        for a in node.args:
            yield from ordered(a, cond)
        for k in node.keywords:
            yield from ordered(k.value, cond)
        yield node, cond
        return
    for ch in ast.iter_child_nodes(node):
        if isinstance(ch, (ast.expr_context, ast.operator, ast.boolop, ast.unaryop, ast.cmpop)):
            continue
        yield from ordered(ch, cond)
    yield node, cond


def full_slice_delete(an, n):
    """del x.attr[:]  — clears in place"""
    p = an.parent(n)
    if isinstance(p, ast.Subscript) and p.value is n and isinstance(p.ctx, ast.Del) and \
            isinstance(p.slice, ast.Slice) and p.slice.lower is None and p.slice.upper is None and p.slice.step is None:
        return True
    return False


class Summaries:
    def __init__(self, an):
        self.an = an
        self.db = an.db
        self.calls = {}       # Func -> list of (call node or attribute node, [callees])
        self.call_at = {}     # id(node) -> [callees]
        self.build_calls()
        self.memo = {}
        self.swap = {}
        self.detect_swaps()

    def implicit_property_calls(self, n, f):
        an = self.an
        pf = an.prop_funcs.get(n.attr)
        if not pf:
            return []
        which = "set" if isinstance(n.ctx, (ast.Store, ast.Del)) else "get"
        cands = pf[which]
        meth = an.enclosing_method(f)
        if isinstance(n.value, ast.Name) and meth is not None and n.value.id == an.self_name(meth):
            cands = [g for g in cands if g.cls is None or self.db.related(g.cls, meth.cls)]
        return cands

    def build_calls(self):
        an = self.an
        for f in self.db.funcs:
            lst = []
            for n in an.own[f]:
                if isinstance(n, ast.Call):
                    cs = an.resolve_call(n, f) + an.builtin_dunder(n, f)
                    if cs:
                        self.call_at[id(n)] = cs
                        lst.append((n, cs))
                elif isinstance(n, ast.Attribute):
                    cs = self.implicit_property_calls(n, f)
                    if cs:
                        self.call_at[id(n)] = cs
                        lst.append((n, cs))
            self.calls[f] = lst
        self.callers = {}
        for f, lst in self.calls.items():
            for _, cs in lst:
                for g in cs:
                    if g != "<dynamic>":
                        self.callers.setdefault(g, set()).add(f)
        # module-level functions used as values (callbacks)
        an.func_value_use = {}
        for f in self.db.funcs:
            for n in an.own[f]:
                if isinstance(n, ast.Name) and isinstance(n.ctx, ast.Load):
                    p = an.parent(n)
                    if isinstance(p, ast.Call) and p.func is n:
                        continue
                    g = f.mod.funcs.get(n.id)
                    if g is not None and not an.is_local(f, n.id):
                        an.func_value_use[g] = True

    def detect_swaps(self):
        """def m(self): ret = self.a; self.a = <fresh>; return ret"""
        an = self.an
        for f in self.db.funcs:
            if not isinstance(f.node, (ast.FunctionDef,)):
                continue
            body = [s for s in f.node.body if not (isinstance(s, ast.Expr) and isinstance(s.value, ast.Constant))]
            if len(body) != 3:
                continue
            a, b, c = body
            if isinstance(a, ast.Assign) and len(a.targets) == 1 and isinstance(a.targets[0], ast.Name) \
                    and isinstance(a.value, ast.Attribute) \
                    and isinstance(b, ast.Assign) and len(b.targets) == 1 \
                    and ast.dump(b.targets[0]).replace("Store()", "Load()") == ast.dump(a.value) \
                    and isinstance(b.value, (ast.List, ast.Dict, ast.Constant, ast.Call)) \
                    and isinstance(c, ast.Return) and isinstance(c.value, ast.Name) and c.value.id == a.targets[0].id:
                if isinstance(b.value, ast.Call) and (b.value.args or b.value.keywords):
                    continue
                sites = [s for s, k in an.node_acc.get(id(a.value), [])]
                for s in sites:
                    self.swap[(f, s)] = True

    # ---- may-access / may-write (fixpoint over the call graph)
    def closure(self, entries):
        an = self.an
        direct_r = {f: set() for f in self.db.funcs}
        direct_w = {f: set() for f in self.db.funcs}
        for s in an.sites:
            for f, k, ln in s.acc:
                if k in ("D", "I"):
                    continue
                direct_r[f].add(s)
                if k in ("K", "M", "E", "K?", "W"):
                    direct_w[f].add(s)
        self.direct_r, self.direct_w = direct_r, direct_w
        may_r = {f: set(v) for f, v in direct_r.items()}
        may_w = {f: set(v) for f, v in direct_w.items()}
        dyn = {f: any("<dynamic>" in cs for _, cs in self.calls[f]) for f in self.db.funcs}
        changed = True
        while changed:
            changed = False
            ent_r = set().union(*[may_r[e] for e in entries]) if entries else set()
            ent_w = set().union(*[may_w[e] for e in entries]) if entries else set()
            for f in self.db.funcs:
                r, w = may_r[f], may_w[f]
                n0 = (len(r), len(w))
                for _, cs in self.calls[f]:
                    for g in cs:
                        if g == "<dynamic>":
                            continue
                        r |= may_r[g]
                        w |= may_w[g]
                if dyn[f]:
                    r |= ent_r
                    w |= ent_w
                if (len(r), len(w)) != n0:
                    changed = True
        self.may_r, self.may_w = may_r, may_w

    # ---- first access
    def summarize(self, f, s, entries_for_site):
        """'none' | 'kill' | 'dirty' | 'swap' : what the first access of f (transitively) to s is"""
        key = (f, s)
        if key in self.memo:
            v = self.memo[key]
            if v == "<busy>":
                # recursion: least fixpoint, iterated by summarize_fix until stable
                self.cyclic = True
                return self.prev.get(key, "none")
            return v
        if s not in self.may_r[f]:
            self.memo[key] = "none"
            return "none"
        if self.swap.get(key):
            self.memo[key] = "swap"
            return "swap"
        self.memo[key] = "<busy>"
        body = f.body if not isinstance(f.node, (ast.Module, ast.ClassDef)) else f.node.body
        r = self.block(body, f, s, entries_for_site)
        self.memo[key] = r
        return r

    def block(self, stmts, f, s, E):
        for st in stmts:
            r = self.stmt(st, f, s, E)
            if r in ("kill", "dirty"):
                return r
        return "none"

    def events(self, node, f, s, E):
        """first decisive event inside an expression / simple statement"""
        an = self.an
        for n, cond in ordered(node):
            for site, k in an.node_acc.get(id(n), []):
                if site is not s or k in ("D", "I"):
                    continue
                if k == "K" or (k == "M" and full_slice_delete(an, n)):
                    if not cond:
                        return "kill"
                    continue
                if k == "W":
                    continue          # writes without exposing what was there: neither a kill nor a read
                return "dirty"
            cs = self.call_at.get(id(n))
            if cs:
                res = []
                for g in cs:
                    if g == "<dynamic>":
                        res.append("kill" if any(s in self.may_r[e] for e in E) else "none")
                        if any(s in self.may_r[e] for e in E):
                            self.dyn_used.add(s)
                        continue
                    r = self.summarize(g, s, E)
                    if r == "swap":
                        r = "kill" if isinstance(an.parent(n), ast.Expr) else "dirty"
                    res.append(r)
                if any(r == "dirty" for r in res):
                    return "dirty"
                if res and all(r == "kill" for r in res) and not cond:
                    return "kill"
        return "none"

    dyn_used = set()
    prev = {}
    cyclic = False

    def summarize_fix(self, funcs, s, E):
        """summaries of all funcs for site s, iterated until the assumptions made on recursive calls hold"""
        self.prev = {}
        for _ in range(12):
            for k in [k for k in self.memo if k[1] is s]:
                del self.memo[k]
            self.cyclic = False
            out = {f: self.summarize(f, s, E) for f in funcs}
            cur = {k: v for k, v in self.memo.items() if k[1] is s}
            if not self.cyclic or cur == self.prev:
                return out
            self.prev = cur
        return {f: "dirty" for f in funcs}

    def stmt(self, st, f, s, E):
        if isinstance(st, (ast.FunctionDef, ast.AsyncFunctionDef, ast.ClassDef)):
            return self.events(st, f, s, E)
        if isinstance(st, ast.If):
            r = self.events(st.test, f, s, E)
            if r != "none":
                return r
            a = self.block(st.body, f, s, E)
            b = self.block(st.orelse, f, s, E)
            if "dirty" in (a, b):
                return "dirty"
            if a == "kill" and (b == "kill" or terminates(st.orelse)):
                return "kill"
            if b == "kill" and terminates(st.body):
                return "kill"
            return "none"
        if isinstance(st, (ast.For, ast.AsyncFor, ast.While)):
            r = self.events(st.iter if not isinstance(st, ast.While) else st.test, f, s, E)
            if r != "none":
                return r
            a = self.block(st.body, f, s, E)
            b = self.block(st.orelse, f, s, E)
            if "dirty" in (a, b):
                return "dirty"
            return "none"
        if isinstance(st, (ast.With, ast.AsyncWith)):
            for it in st.items:
                r = self.events(it.context_expr, f, s, E)
                if r != "none":
                    return r
            return self.block(st.body, f, s, E)
        if isinstance(st, ast.Try) or st.__class__.__name__ == "TryStar":
            a = self.block(st.body, f, s, E)
            if a == "dirty":
                return "dirty"
            hs = [self.block(h.body, f, s, E) for h in st.handlers]
            if "dirty" in hs:
                return "dirty"
            o = self.block(st.orelse, f, s, E)
            if o == "dirty":
                return "dirty"
            fin = self.block(st.finalbody, f, s, E)
            if fin in ("kill", "dirty"):
                return fin
            if a == "kill" and all(h == "kill" or terminates(hd.body) for h, hd in zip(hs, st.handlers)):
                return "kill"
            if a == "none" and o == "kill" and all(h == "kill" or terminates(hd.body) for h, hd in zip(hs, st.handlers)):
                return "kill"
            return "none"
        if isinstance(st, ast.Match):
            rs = [self.block(c.body, f, s, E) for c in st.cases]
            r = self.events(st.subject, f, s, E)
            if r != "none":
                return r
            return "dirty" if "dirty" in rs else "none"
        return self.events(st, f, s, E)


def terminates(stmts):
    return bool(stmts) and isinstance(stmts[-1], (ast.Raise, ast.Return))


# ----------------------------------------------------------------------------------------------
# caller-supplied containers that are stored without a copy
# ----------------------------------------------------------------------------------------------
MUTABLE_TYPE_NAMES = {"list", "set", "dict", "deque", "bytearray", "ndarray", "np.ndarray", "numpy.ndarray",
                      "np.array", "List", "Set", "Dict", "MutableSequence", "MutableMapping", "MutableSet"}
COPYING_CALLS = {"set", "list", "dict", "tuple", "frozenset", "sorted", "deque", "copy", "deepcopy", "array",
                 "asarray_copy", "copy.copy", "copy.deepcopy", "np.array", "numpy.array", "np.copy", "float", "int",
                 "str", "bool"}


def _type_names(e):
    """class names mentioned in the second argument of isinstance / an annotation"""
    out = set()
    for n in ast.walk(e):
        d = dotted(n) if isinstance(n, (ast.Name, ast.Attribute)) else None
        if d:
            out.add(d)
            out.add(d.split(".")[-1])
    return out


def collect_stored_args(an, res):
    """Sites of kind KStoresArg: an API function keeps a reference to a mutable container the caller passed in
    (`self._x = param`, `self._x[k] = param`, `setattr(self, name, param)`) instead of a copy; two objects (of two
    problems) given the same container then share it.  Evidence that the parameter is a container: an
    isinstance check / annotation naming list, set, dict, ndarray, ..., or the declared types of a generated setter."""
    db = an.db
    out = []
    for f in db.funcs:
        if f.mod.ext or f.kind != "func" or not isinstance(f.node, (ast.FunctionDef, ast.AsyncFunctionDef)):
            continue
        meth = an.enclosing_method(f)
        if meth is None:
            continue
        sn = an.self_name(meth)
        if sn is None:
            continue
        params = [x for x in f.params if x != sn]
        if not params:
            continue
        # evidence per parameter
        ev = {}
        a = f.node.args
        for arg in a.posonlyargs + a.args + a.kwonlyargs:
            if arg.annotation is not None and (_type_names(arg.annotation) & MUTABLE_TYPE_NAMES):
                ev.setdefault(arg.arg, set()).update(_type_names(arg.annotation) & MUTABLE_TYPE_NAMES)
        cond_rebound = {}      # param -> type names for which it is replaced by a fresh object first
        for n in an.own[f]:
            if isinstance(n, ast.Call) and dotted(n.func) == "isinstance" and len(n.args) == 2 \
                    and isinstance(n.args[0], ast.Name) and n.args[0].id in params:
                t = _type_names(n.args[1]) & MUTABLE_TYPE_NAMES
                if t:
                    ev.setdefault(n.args[0].id, set()).update(t)
        # unconditional rebinding at the top level of the function body: the name no longer holds the caller's object
        killed_at = {}
        for i, st in enumerate(f.node.body):
            if isinstance(st, ast.Assign) and len(st.targets) == 1 and isinstance(st.targets[0], ast.Name) \
                    and st.targets[0].id in params and isinstance(st.value, ast.Call):
                killed_at.setdefault(st.targets[0].id, st.lineno)
            if isinstance(st, ast.If):
                # if isinstance(p, T): p = fresh(p)
                tst = st.test
                if isinstance(tst, ast.Call) and dotted(tst.func) == "isinstance" and len(tst.args) == 2 \
                        and isinstance(tst.args[0], ast.Name) and tst.args[0].id in params and not st.orelse:
                    for b in st.body:
                        if isinstance(b, ast.Assign) and len(b.targets) == 1 and isinstance(b.targets[0], ast.Name) \
                                and b.targets[0].id == tst.args[0].id and isinstance(b.value, ast.Call):
                            cond_rebound.setdefault(tst.args[0].id, set()).update(_type_names(tst.args[1]))
        for n in an.own[f]:
            stored = None
            how = None
            if isinstance(n, ast.Assign) and isinstance(n.value, ast.Name) and n.value.id in params:
                for tg in n.targets:
                    base = tg
                    while isinstance(base, ast.Subscript):
                        base = base.value
                    if isinstance(base, ast.Attribute) and isinstance(base.value, ast.Name) and base.value.id == sn:
                        stored, how = n.value.id, "self.%s%s = %s" % (base.attr, "[...]" if base is not tg else "", n.value.id)
            elif isinstance(n, ast.Call) and dotted(n.func) == "setattr" and len(n.args) == 3 \
                    and isinstance(n.args[0], ast.Name) and n.args[0].id == sn \
                    and isinstance(n.args[2], ast.Name) and n.args[2].id in params:
                stored, how = n.args[2].id, "setattr(self, ..., %s)" % n.args[2].id
            if stored is None:
                continue
            if stored in killed_at and killed_at[stored] < n.lineno:
                continue
            types = set(ev.get(stored, set()))
            types -= {t for t in cond_rebound.get(stored, set())}
            out.append((f, stored, how, n.lineno, sorted(types)))
    # generated setters: setattr(self, hidden_param, value) with the declared types of each application
    gen_sites = []
    for g in res.props:
        decl = set(g["types"]) & MUTABLE_TYPE_NAMES
        if decl:
            gen_sites.append((g["name"], sorted(decl)))
    sites = []
    for f, pname, how, ln, types in out:
        if "make_prop" in f.qual:
            continue          # the factories: judged per application below
        if f.mod.rel.startswith("input_parser" + os.sep) or f.mod.rel.startswith("input_parser/"):
            continue          # the parse-tree layer (syntax nodes, Input): not objects of a problem's API
        if not types:
            continue          # no evidence that the parameter is a mutable container (scalars, objects of the model)
        s = Site("KStoresArg", f"{f.qual}({pname})", Shape("container", True), f.mod, attr=pname, owner=f, lineno=ln)
        s.extra.update(how=how, types=types)
        s.acc.append((f, "E", ln))
        sites.append(s)
    for name, types in gen_sites:
        cn = name.split(".")[0]
        c = db.classes.get(cn)
        s = Site("KStoresArg", f"set:{name}(value)", Shape("container", True), c.mod if c else None, attr="value",
                 lineno=0)
        s.extra.update(how="setattr(self, hidden, value)", types=types, app=name)
        sites.append(s)
    return sites


# ----------------------------------------------------------------------------------------------
# driver
# ----------------------------------------------------------------------------------------------
INTERNAL_FILES = {"input_parser/parser_base.py", "input_parser/cell_parser.py", "input_parser/data_parser.py",
                  "input_parser/surface_parser.py", "input_parser/material_parser.py",
                  "input_parser/thermal_parser.py", "input_parser/tally_parser.py",
                  "input_parser/tally_seg_parser.py", "input_parser/read_parser.py", "input_parser/tokens.py",
                  "input_parser/input_syntax_reader.py"}
WRITE_KINDS = ("K", "M", "E", "K?", "W")
READ_KINDS = ("R", "M", "E", "K?")


class Result:
    pass


def is_import_time(f, su=None, seen=None):
    """module / class bodies, and functions that are only ever called from them"""
    if f.kind in ("modbody", "classbody"):
        return True
    if su is None or f.kind != "func":
        return False
    seen = seen or set()
    if f in seen:
        return False
    seen.add(f)
    callers = su.callers.get(f, set())
    if not callers:
        return False
    if f.name.startswith("__") and f.name.endswith("__"):
        return False
    if getattr(f, "is_method", False):
        return False        # methods can be reached through attribute access from anywhere
    # a module-level function that is referenced other than by a direct call may be called later
    if su.an.func_value_use.get(f):
        return False
    return all(is_import_time(c, su, seen) for c in callers)


def entry_kind(f):
    n = f.name
    if any(d.endswith(".setter") or d.endswith(".deleter") for d in f.decos):
        return "EkSet"
    if "property" in f.decos or any("make_prop_" in d for d in f.decos):
        return "EkGet"
    if n in ("read_input", "parse_input"):
        return "EkRead"
    if n in ("write_to_file", "format_for_mcnp_input"):
        return "EkWrite"
    if n in ("__deepcopy__", "__copy__", "__getstate__", "__setstate__", "__reduce__", "__reduce_ex__"):
        return "EkCopy"
    if n == "__init__" or n == "__new__":
        return "EkNew"
    if n in ("__str__", "__repr__", "__iter__", "__len__", "__getitem__", "__contains__", "__eq__", "__hash__",
             "__lt__", "__next__", "__bool__"):
        return "EkGet"
    return "EkCall"


def analyse(repo=None):
    db = DB(repo or REPO)
    sites = enumerate_sites(db)
    an = Analyzer(db, sites)
    an._entries = [f for f in db.funcs if not f.mod.ext and f.kind == "func" and f.parent is None
                   and f.mod.rel not in INTERNAL_FILES]
    an.setup_families()
    an.propagate_taint()
    prescan_dynamic(an)
    collect(an)
    su = Summaries(an)
    su.closure(an._entries)
    res = Result()
    res.db, res.an, res.su = db, an, su
    res.entries = an._entries
    rows = []
    for s in an.sites:
        live_w = sorted({f.qual for f, k, _ in s.acc if k in WRITE_KINDS and not is_import_time(f, su)})
        init_w = sorted({f.qual for f, k, _ in s.acc if k in WRITE_KINDS and is_import_time(f, su)})
        readers = sorted({f.qual for f, k, _ in s.acc if k in READ_KINDS})
        ents = []
        status = None
        if s.kind == "KClosure":
            status = "SDirty" if s.extra["live_write"] else "SConst"
            live_w = s.extra["writers"] if s.extra["live_write"] else []
        elif s.kind == "KDefaultArg":
            status = "SDirty" if live_w else "SConst"
        elif s.kind == "KCache":
            status = "SConst" if s.extra.get("per_instance") else "SDirty"
        elif s.kind == "KSingleton":
            # the binding itself; the state of the instance is in its KInstAttr sites
            status = "SDirty" if live_w else "SConst"
        else:
            if not live_w:
                status = "SConst"
            elif not readers:
                status = "SUnread"
            else:
                bad = []
                E = [e for e in res.entries if s in su.may_r[e]]
                fx = su.summarize_fix(E, s, E)
                for e in E:
                    r = fx[e]
                    ents.append((e, r, s in su.may_w[e]))
                    if r in ("dirty", "swap"):
                        bad.append(e)
                status = "SKillFirst" if not bad else "SDirty"
        row = Result()
        row.site, row.status, row.live_w, row.init_w, row.readers, row.entries = s, status, live_w, init_w, readers, ents
        rows.append(row)
    res.rows = rows
    # generated properties: every application of a make_prop_* factory that declares `types`
    res.props = []
    closure_by_app = {r.site.extra["app"]: r.site for r in rows if r.site.kind == "KClosure"}
    for f in db.funcs:
        if f.mod.ext or f.kind != "func" or f.parent is not None or not f.name.startswith("make_prop_") \
                or "types" not in f.params:
            continue
        for name, init, mod, ln in factory_applications(an, f, "types") or []:
            if init is None or (isinstance(init, ast.Constant) and init.value is None):
                continue          # no setter is generated
            cs_ = closure_by_app.get(name)
            latching = bool(cs_ is not None and cs_.extra.get("live_write"))
            tys = [] if latching else types_of_decl(init, name)
            empty = (isinstance(init, ast.Tuple) and not init.elts) or \
                (isinstance(init, ast.Call) and dotted(init.func) == "tuple" and not init.args)
            res.props.append({"name": name, "owner": name.split(".")[0], "latching": latching, "types": tys,
                              "self_typed": bool(empty), "site": cs_})
    # caller-supplied containers stored without a copy
    for s_ in collect_stored_args(an, res):
        an.sites.append(s_)
        row = Result()
        row.site, row.status = s_, "SDirty"
        row.live_w = [s_.owner.qual] if s_.owner is not None else ["set:" + s_.extra.get("app", "?")]
        row.init_w, row.readers, row.entries = [], list(row.live_w), []
        rows.append(row)
    # copy hooks
    res.copy_hooks = sorted(f.qual for f in db.funcs if not f.mod.ext and f.name in
                            ("__deepcopy__", "__copy__", "__getstate__", "__setstate__", "__reduce__",
                             "__reduce_ex__"))
    res.weakrefs = sorted({f.qual for f in db.funcs if not f.mod.ext for n in an.own[f]
                           if isinstance(n, ast.Attribute) and dotted(n) in ("weakref.ref", "weakref.proxy")})
    return res


def debug_print(res):
    for r in res.rows:
        s = r.site
        print(f"{r.status:10s} {s.kind:11s} {s.name}")
        if r.live_w:
            print("      writers:", r.live_w)
        if r.init_w:
            print("      import-time writers:", r.init_w)
        if r.status in ("SDirty", "SKillFirst", "SUnread"):
            print("      readers:", r.readers[:8])
            for e, sm, w in r.entries:
                if sm != "none":
                    print(f"        entry {e.qual}: {sm}{' (may write)' if w else ''}")
            if s.extra.get("const_writes") is not None:
                print("      const writes:", s.extra["const_writes"])
        if s.kind == "KClosure":
            print("      ", {k: v for k, v in s.extra.items()})


def explain(res, fq, sname, depth=0, seen=None):
    """debug helper: why is the first access of function fq to site sname what it is"""
    su, an = res.su, res.an
    f = [x for x in res.db.funcs if x.qual == fq][0]
    s = [x for x in an.sites if x.name == sname][0]
    seen = seen if seen is not None else set()
    if f in seen or depth > 12:
        return
    seen.add(f)
    E = [e for e in res.entries if s in su.may_r[e]]
    print("  " * depth + f"{f.qual}: {su.summarize(f, s, E)}")
    for n in an.own[f]:
        for site, k in an.node_acc.get(id(n), []):
            if site is s and k not in ("D", "I"):
                print("  " * depth + f"   line {n.lineno}: direct {k}")
        cs = su.call_at.get(id(n))
        if cs:
            for g in cs:
                if g == "<dynamic>":
                    print("  " * depth + f"   line {n.lineno}: dynamic call")
                elif s in su.may_r[g]:
                    r = su.summarize(g, s, E)
                    print("  " * depth + f"   line {n.lineno}: call {g.qual} -> {r}")
                    if r in ("dirty", "swap"):
                        explain(res, g.qual, sname, depth + 1, seen)


# ----------------------------------------------------------------------------------------------
# emission
# ----------------------------------------------------------------------------------------------
def cs(x):
    return '"' + x.replace('"', '""') + '"'


def clist(items, sep="; "):
    return "[" + sep.join(items) + "]"


FIRST = {"none": "FNone", "kill": "FKill", "dirty": "FDirty", "swap": "FDirty"}


def types_of_decl(node, where):
    """class names of a `types` declaration"""
    def one(e):
        if isinstance(e, ast.Name):
            return e.id
        if isinstance(e, ast.Attribute):
            return e.attr
        if isinstance(e, ast.Call) and dotted(e.func) == "type" and len(e.args) == 1 and \
                isinstance(e.args[0], ast.Constant) and e.args[0].value is None:
            return "NoneType"
        raise TranslatorError(f"{where}: unrecognised types declaration {ast.unparse(e)}")
    if node is None:
        return []
    if isinstance(node, ast.Tuple):
        return [one(x) for x in node.elts]
    if isinstance(node, ast.Call) and dotted(node.func) == "tuple" and not node.args:
        return []
    return [one(node)]


def emit(res):
    an, su, db = res.an, res.su, res.db
    for i, r in enumerate(res.rows):
        r.site.id = i
    lines = []
    w = lines.append
    w("(* GENERATED by harness/translate_globals.py from the working tree of montepy (and sly) — do not edit. *)")
    w("From Coq Require Import List String Bool ZArith.")
    w("From MPV Require Import Model.Iso.")
    w("Import ListNotations.")
    w("Open Scope string_scope.")
    w("")
    entry_rows = {}       # entry qual -> [(site id, first, w)]
    entry_kind_of = {}
    site_rows = {}
    for r in res.rows:
        s = r.site
        rows = []
        if s.kind == "KClosure":
            if s.extra["live_write"]:
                rows = [("set:" + s.extra["app"], "FDirty", True)]
        elif s.kind in ("KModGlobal", "KClassAttr", "KInstAttr") and r.live_w:
            for e, sm, mw in r.entries:
                if sm != "none" or mw:
                    rows.append((e.qual, FIRST[sm], mw))
                    entry_kind_of[e.qual] = entry_kind(e)
        elif s.kind == "KStoresArg":
            rows = []
        elif s.kind in ("KDefaultArg", "KCache", "KSingleton") and r.live_w:
            for q in r.live_w:
                rows.append((q, "FDirty", True))
                entry_kind_of.setdefault(q, "EkCall")
        site_rows[s.id] = rows
        if not s.extra.get("ext") and s.kind != "KClosure":
            for en, fi, mw in rows:
                entry_rows.setdefault(en, []).append((s.id, fi, mw))
    w("Definition sites : list site := [")
    srows = []
    for r in res.rows:
        s = r.site
        rows = site_rows[s.id]
        srows.append(
            "  mk_site %d %s %s %s %s\n    %s\n    %s\n    %s\n    %s" % (
                s.id, cs(s.name), s.kind, "true" if s.extra.get("ext") else "false", r.status,
                clist([cs(x) for x in r.live_w]), clist([cs(x) for x in r.init_w]),
                clist([cs(x) for x in r.readers]),
                clist(["(%s, %s, %s)" % (cs(a), b, "true" if c else "false") for a, b, c in rows])))
    w(";\n".join(srows))
    w("].")
    w("")
    # generated properties
    props = []
    for g in res.props:
        props.append((g["name"], g["owner"], g["latching"], g["types"], g["site"].id if g["site"] is not None else None,
                      g["self_typed"]))
    w("Definition entries : list entry := [")
    erows = []
    for en in sorted(entry_rows):
        erows.append("  mk_entry %s %s %s" % (cs(en), entry_kind_of.get(en, "EkCall"),
                     clist(["(%d, %s, %s)" % (a, b, "true" if c else "false") for a, b, c in sorted(entry_rows[en])])))
    for app, owner, latching, tys, sid, st in props:
        erows.append("  mk_entry %s EkGenSet %s" % (cs("set:" + app), "[(%d, FDirty, true)]" % sid if latching else "[]"))
    w(";\n".join(erows))
    w("].")
    w("")
    w("Definition props : list gprop := [")
    w(";\n".join("  mk_gprop %s %s %s %s %s %s" % (cs(a), cs(o), "true" if l else "false",
                                                   clist([cs(t) for t in tys]), "true" if st else "false",
                                                   "(Some %d)" % sid if sid is not None else "None")
                 for a, o, l, tys, sid, st in props))
    w("].")
    w("")
    w("Definition classes : list (string * list string) := [")
    crows = [("bool", ["int"]), ("int", []), ("float", []), ("str", []), ("NoneType", []), ("tuple", []), ("list", [])]
    for name in sorted(db.classes):
        c = db.classes[name]
        crows.append((name, db.ancestors_names(c)))
    w(";\n".join("  (%s, %s)" % (cs(a), clist([cs(x) for x in b])) for a, b in crows))
    w("].")
    w("")
    w("Definition copy_hooks : list string := %s." % clist([cs(x) for x in res.copy_hooks]))
    w("Definition weakref_users : list string := %s." % clist([cs(x) for x in res.weakrefs]))
    w("Definition internal_files : list string := %s." % clist([cs(x) for x in sorted(INTERNAL_FILES)]))
    w("")
    # first accesses of internal functions on written own sites
    frows = []
    for r in res.rows:
        s = r.site
        if s.kind not in ("KModGlobal", "KClassAttr", "KInstAttr") or not r.live_w:
            continue
        E = [e for e in res.entries if s in su.may_r[e]]
        F = [f for f in db.funcs if f.kind == "func" and s in su.may_r[f] and f not in res.entries]
        fx = su.summarize_fix(F, s, E)
        for f in F:
            if fx[f] != "none":
                frows.append("  (%s, %d, %s)" % (cs(f.qual), s.id, FIRST[fx[f]]))
    w("Definition funcs : list (string * nat * first) := [")
    w(";\n".join(frows))
    w("].")
    w("")
    w("Definition table : Iso.table := mk_table sites entries props classes copy_hooks funcs.")
    return "\n".join(lines) + "\n"


def regenerate(repo=None):
    try:
        res = analyse(repo)
        text = emit(res)
    except Exception:
        try:
            os.remove(OUT)
        except OSError:
            pass
        raise
    try:
        with open(OUT) as fh:
            if fh.read() == text:
                return res
    except OSError:
        pass
    os.makedirs(os.path.dirname(OUT), exist_ok=True)
    with open(OUT, "w") as fh:
        fh.write(text)
    return res


if __name__ == "__main__":
    if len(sys.argv) > 1 and sys.argv[1] == "--debug":
        debug_print(analyse(sys.argv[2] if len(sys.argv) > 2 else None))
    else:
        regenerate(sys.argv[1] if len(sys.argv) > 1 else None)
        print("wrote", OUT)


# ----------------------------------------------------------------------------------------------
# self test: a synthetic package with one instance of every leak shape (and of every harmless shape)
# ----------------------------------------------------------------------------------------------
SELFTEST_FILES = {
    "__init__.py": "from . import a, b\n",
    "a.py": '''
import functools
from collections import deque

TABLE = {"x": 1, "y": 2}                 # const: only read
NESTED = {"f": {"w": 0}, "g": {"w": 1}}  # const: elements copied before use
LEAKY_NESTED = {"f": {"w": 0}}           # dirty: inner dict handed out without a copy
QUEUE = deque()                          # kill first: reset at the start of run()
QUEUE2 = deque()                         # dirty: never reset
COUNTER = 0                              # dirty: global counter
_CACHE = {}                              # dirty: module level memo


def lookup(k):
    return TABLE[k] + len(TABLE)


def fresh(k):
    d = NESTED[k].copy()
    d["w"] = 5
    return d


def leak(k):
    d = LEAKY_NESTED[k]
    d["w"] = d["w"] + 1
    return d["w"]


def run(items):
    global QUEUE
    QUEUE = deque()

    def push(i):
        QUEUE.append(i)

    def drain():
        out = []
        while QUEUE:
            out.append(QUEUE.popleft())
        return out
    for i in items:
        push(i)
    return drain()


def run2(items):
    for i in items:
        QUEUE2.append(i)
    return len(QUEUE2)


def tick():
    global COUNTER
    COUNTER += 1
    return COUNTER


def memo(k):
    if k not in _CACHE:
        _CACHE[k] = k * 2
    return _CACHE[k]


def bad_default(x, acc=[]):
    acc.append(x)
    return acc


def ok_default(x, table=(1, 2, 3), names=["a", "b"]):
    return x in table or x in names


@functools.lru_cache(maxsize=None)
def cached(x):
    return x + 1


def factory(name, types=None):
    def deco(func):
        def setter(self, value):
            nonlocal types
            if isinstance(types, tuple) and len(types) == 0:
                types = type(self)
            if not isinstance(value, types):
                raise TypeError(name)
            setattr(self, name, value)
        return property(func).setter(setter)
    return deco


def local_cells(n):
    total = 0

    def add(i):
        nonlocal total
        total += i
    for i in range(n):
        add(i)
    return total
''',
    "b.py": '''
from .a import factory


class Log:
    def __init__(self):
        self._items = []

    def add(self, x):
        self._items.append(x)

    def take(self):
        ret = self._items
        self._items = []
        return ret

    def __len__(self):
        return len(self._items)


class Engine:
    log = Log()                      # singleton
    OPTIONS = {"a": 1}               # const
    registry = []                    # dirty: instances register themselves

    def __init__(self):
        self.registry.append(self)

    def restart(self):
        self.log.take()

    def work(self, x):
        self.restart()
        if x < 0:
            self.log.add(x)
        return len(self.log) == 0

    def sloppy(self, x):
        if x < 0:
            self.log.add(x)
        return len(self.log) == 0

    @classmethod
    def configure(cls, v):
        cls.mode = v

    def describe(self):
        return (self.mode, len(self.registry))

    @factory("_peer", ())
    def peer(self):
        pass

    @factory("_size", int)
    def size(self):
        pass


class Thing:
    engine = Engine()                # singleton whose methods write self attributes

    def __deepcopy__(self, memo):
        return self
''',
}

SELFTEST_EXPECT = {
    "a.py:TABLE": "SConst", "a.py:NESTED": "SConst", "a.py:LEAKY_NESTED": "SDirty", "a.py:QUEUE": "SKillFirst",
    "a.py:QUEUE2": "SDirty", "a.py:COUNTER": "SDirty", "a.py:_CACHE": "SDirty",
    "a.py:bad_default(acc=)": "SDirty", "a.py:ok_default(names=)": "SConst", "a.py:cached@functools.lru_cache": "SDirty",
    "a.py:factory.<cell types>@Engine.peer": "SDirty", "a.py:factory.<cell types>@Engine.size": "SConst",
    "b.py:Engine.OPTIONS": "SConst", "b.py:Engine.registry": "SDirty", "b.py:Engine.mode": "SDirty",
    "<Log>._items": "SDirty",        # Engine.sloppy reads the log without restarting
}


def selftest():
    """run the analysis on the synthetic package; returns the list of disagreements with SELFTEST_EXPECT"""
    import tempfile
    import shutil
    d = tempfile.mkdtemp(prefix="/tmp/C17-selftest-")
    try:
        os.makedirs(os.path.join(d, "montepy"))
        for n, t in SELFTEST_FILES.items():
            with open(os.path.join(d, "montepy", n), "w") as fh:
                fh.write(t)
        res = analyse(d)
        got = {r.site.name: r.status for r in res.rows}
        bad = []
        for k, v in SELFTEST_EXPECT.items():
            if got.get(k) != v:
                bad.append({"site": k, "expected": v, "got": got.get(k)})
        if "a.py:local_cells.<cell total>@a.py:local_cells" in got or any("local_cells" in k for k in got):
            bad.append({"site": "local_cells", "expected": "no site (the cell dies with the call)", "got": "site"})
        if res.copy_hooks != ["b.py:Thing.__deepcopy__"]:
            bad.append({"site": "copy hooks", "expected": ["b.py:Thing.__deepcopy__"], "got": res.copy_hooks})
        # the work() entry kills before it reads, sloppy() does not
        log = [r for r in res.rows if r.site.name == "<Log>._items"]
        if log:
            ents = {e.qual: sm for e, sm, w in log[0].entries}
            if ents.get("b.py:Engine.work") not in ("kill", "none") or ents.get("b.py:Engine.sloppy") != "dirty":
                bad.append({"site": "<Log>._items entries", "expected": "work: kill, sloppy: dirty",
                            "got": {k: v for k, v in ents.items() if "Engine" in k}})
        return bad
    finally:
        shutil.rmtree(d, ignore_errors=True)
