"""findings_C05.py — trigger predicates of the open known findings of property C05.

There is no open finding.  The findings of rounds 1 and 2 (precision-cap, intlike-six-digits,
scratch-five-digits, int-truncation, int-isclose, neg-sci-crash, conv-og-float) are fixed in /repo
(67080db, a966343, f5bfd19, 14c016e, da649a9); they are listed in findings/C05.fixed.json and their witnesses
are regression cases in corpus/C05/fixed-*.json: a fixed entry suppresses nothing, so if one of the defects
returns the check reports a VIOLATION."""
