"""findings_C05.py — trigger predicates of the open known findings of property C05.

Each predicate decides from the *case* (kind of node, old token spelling, new value) whether the
defect's trigger is present, without looking at what MontePy wrote; it then confirms (rule iii) that
the same case with the triggering feature removed passes the oracle, so that any other way of losing
a number is still reported as a violation.

The six findings of round 1 (precision-cap, intlike-six-digits, scratch-five-digits, int-truncation,
int-isclose, neg-sci-crash) are fixed in /repo (67080db, a966343, f5bfd19, 14c016e): their predicates are
gone, their witnesses are regression cases in corpus/C05/fixed-*.json (a fixed entry suppresses nothing)."""
import re


def _val(case):
    k, s = case["val"]
    return int(s) if k == "i" else float.fromhex(s)


def _passes_with_value(case, v, kind):
    """does the same case with another value no longer fail in this way?"""
    import props.C05 as C05
    c = dict(case)
    c["val"] = ["i", str(v)] if isinstance(v, int) else ["f", float(v).hex()]
    f = C05.check_case(c)
    return f is None or f["kind"] != kind


def C05_conv_og_float(case, params):
    """F-C05-conv-og-float: a node converted with _convert_to_int() (directly or through
    is_negatable_identifier) whose token is an integer that float() cannot hold (>= 2**53, not a multiple of
    the spacing of doubles there); the new integer is exactly float(token) but not int(token):
    _value_changed compares with the float _og_value, says 'unchanged', and the old token is written."""
    c = case.get("case")
    if not c or case.get("kind") != "int-not-exact":
        return False
    if c.get("kind") != "c":
        return False
    tok = c.get("tok")
    v = _val(c)
    if not isinstance(v, int) or tok in (None, "<J>"):
        return False
    m = re.fullmatch(r"([+-]?\d+)(\.0*)?", tok)
    if not m:
        return False
    ti = int(m.group(1))
    try:
        tf = float(ti)
    except OverflowError:
        return False
    if tf == ti:                       # the token's float is the token's integer: no trigger
        return False
    if v != int(tf) or v == ti:        # only the integer float(token) denotes is mistaken for 'unchanged'
        return False
    # the same node given a different integer is written exactly
    return _passes_with_value(c, v + 7, "int-not-exact")
