"""findings_C05.py — trigger predicates of the open known findings of property C05.

Each predicate decides from the *case* (kind of node, old token spelling, new value) whether the
defect's trigger is present, without looking at what MontePy wrote; it then confirms (rule iii) that
the same case with the triggering feature removed passes the oracle, so that any other way of losing
a number is still reported as a violation."""
import math
import re
from fractions import Fraction

REL_TOL = 1e-9

_TOK = re.compile(r"^([+-]?)(\d*)(\.?)(\d*)(?:([eE]?)([+-]?)(\d+))?$")


def _val(case):
    k, s = case["val"]
    return int(s) if k == "i" else float.fromhex(s)


def token_shape(tok):
    """What the spelling of the old token lets MontePy write, decided from the text alone:
    ('sig', n)      n significant digits  (scientific tokens; integer-looking tokens and jumps: 6;
                                           no token at all: 5)
    ('dec', n)      n digits after the point (plain decimal tokens)
    plus flags: has_point (in the significand), scientific, negative."""
    if tok is None:
        return {"style": ("sig", 5), "has_point": True, "sci": False, "neg": False, "scratch": True}
    if tok == "<J>":
        return {"style": ("sig", 6), "has_point": False, "sci": False, "neg": False, "scratch": False}
    m = _TOK.match(tok)
    if not m:
        return None
    sign, d1, dot, d2, letter, esign, edig = m.groups()
    has_exp = edig is not None and (letter or esign)
    if edig is not None and not has_exp:
        return None
    neg = sign == "-"
    if has_exp and d1:
        if dot:
            return {"style": ("sig", len(d2) + 1), "has_point": True, "sci": True, "neg": neg, "scratch": False}
        return {"style": ("sig", 6), "has_point": False, "sci": True, "neg": neg, "scratch": False}
    if dot:
        return {"style": ("dec", len(tok) - tok.index(".") - 1), "has_point": True, "sci": False, "neg": neg,
                "scratch": False}
    return {"style": ("sig", 6), "has_point": False, "sci": False, "neg": neg, "scratch": False}


def round_to_style(v, style):
    """v rounded (half-even, exactly) to what the style can spell; a Fraction"""
    q = Fraction(v)
    if q == 0:
        return q
    kind, n = style
    if kind == "dec":
        return Fraction(round(q, n))
    a = abs(q)
    e = 0
    while a >= 10 ** (e + 1):
        e += 1
    while a < Fraction(10) ** e:
        e -= 1
    return Fraction(round(q, n - 1 - e))


def needs_more_digits(v, style):
    r = round_to_style(v, style)
    try:
        return not math.isclose(float(r), float(v), rel_tol=REL_TOL, abs_tol=0.0)
    except OverflowError:
        return True                 # the rounded spelling is beyond the largest double


def _passes_with_value(case, v, kind):
    """does the same case with another value no longer fail in this way?"""
    import props.C05 as C05
    c = dict(case)
    c["val"] = ["i", str(v)] if isinstance(v, int) else ["f", float(v).hex()]
    f = C05.check_case(c)
    return f is None or f["kind"] != kind


def _digits_capped(case, want):
    c = case.get("case")
    if not c or case.get("kind") != "not-close" or c.get("kind") != "f":
        return False
    sh = token_shape(c["tok"])
    if sh is None or not want(sh):
        return False
    v = _val(c)
    if isinstance(v, int):
        if abs(v) >= 2 ** 1023:
            return False
        v = float(v)
    if not needs_more_digits(v, sh["style"]):
        return False
    r = round_to_style(v, sh["style"])
    try:
        v2 = float(r)
    except OverflowError:
        v2 = math.copysign(1e308, v)
    return _passes_with_value(c, v2, "not-close")


def C05_precision_cap(case, params):
    """F-C05-precision-cap: the old token has a decimal point; the new value needs more digits after the
    point (plain tokens) / more significant digits (scientific tokens) than the old token shows."""
    return _digits_capped(case, lambda sh: sh["has_point"] and not sh["scratch"])


def C05_intlike_six_digits(case, params):
    """F-C05-intlike-six-digits: the old token has no decimal point (integer-looking, '1e3', a jump):
    a new value that is not close to an integer is written with 6 significant digits."""
    return _digits_capped(case, lambda sh: not sh["has_point"])


def C05_scratch_five_digits(case, params):
    """F-C05-scratch-five-digits: a node without token (object created from scratch) writes 5 significant digits."""
    return _digits_capped(case, lambda sh: sh["scratch"])


def C05_int_truncation(case, params):
    """F-C05-int-truncation: integer-looking old token, new float value just below an integer in magnitude
    and within 1e-9 of it: written with int(), which truncates."""
    c = case.get("case")
    if not c or case.get("kind") != "not-close" or c.get("kind") != "f":
        return False
    sh = token_shape(c["tok"])
    v = _val(c)
    if sh is None or sh["has_point"] or not isinstance(v, float):
        return False
    n = round(v)
    if n == v or int(v) == n or not math.isclose(n, v, rel_tol=REL_TOL, abs_tol=0.0):
        return False
    return _passes_with_value(c, float(n), "not-close")


def C05_int_isclose(case, params):
    """F-C05-int-isclose: integer node, the new integer differs from the old one by at most 1e-9 of it:
    _value_changed says 'unchanged' and the old token is written."""
    c = case.get("case")
    if not c or case.get("kind") != "int-not-exact" or c.get("kind") not in ("i", "c"):
        return False
    v = _val(c)
    tok = c["tok"]
    if not isinstance(v, int) or tok in (None, "<J>"):
        return False
    m = re.fullmatch(r"([+-]?\d+)(\.0*)?", tok)
    if not m:
        return False
    og = int(m.group(1))
    if og == v or not math.isclose(og, v, rel_tol=REL_TOL, abs_tol=0.0):
        return False
    return _passes_with_value(c, 3 * abs(og) + 7, "int-not-exact")


def C05_neg_sci_crash(case, params):
    """F-C05-neg-sci-crash: the old token is negative and scientific; a new non-negative value is formatted
    with sign option ' ', and _SCIENTIFIC_FINDER.match fails on the leading blank: AttributeError."""
    c = case.get("case")
    if not c or case.get("kind") != "exception" or c.get("kind") != "f":
        return False
    if (case.get("detail") or {}).get("exc") != "AttributeError":
        return False
    sh = token_shape(c["tok"])
    v = _val(c)
    if sh is None or not (sh["sci"] and sh["neg"]):
        return False
    if math.copysign(1.0, float(v)) < 0:
        return False
    return _passes_with_value(c, -abs(float(v)) if v != 0 else -1.0, "exception")
