"""seedtest.py — confirm a seeded change and run a check against it (not a registered check).

  python3 harness/seedtest.py confirm <dir>          # <dir> holds patch.diff demo.py meta.json
  python3 harness/seedtest.py run <seeded-id> [--tier quick]   # /verif/seeded/<id>/
  python3 harness/seedtest.py all [--only C06,C10]

confirm: scratch worktree of /repo HEAD under /tmp, patch applies, MontePy's suite still passes (404),
demo exits 0 without and 1 with the change.  run: the property's check with VERIF_REPO=<worktree>;
the verdict (exit code, VIOLATION line) is appended to seeded/<id>/meta.json under "checks".
The worktree is removed afterwards in every case.
"""
import json
import os
import re
import shutil
import subprocess
import sys
import time

VERIF = os.path.dirname(os.path.dirname(os.path.abspath(__file__)))
PY = "/venv/bin/python"


def sh(cmd, cwd=None, env=None, timeout=3600):
    p = subprocess.run(cmd, shell=True, cwd=cwd, env=env, stdout=subprocess.PIPE, stderr=subprocess.STDOUT,
                       text=True, timeout=timeout)
    return p.returncode, p.stdout


def worktree(tag):
    wt = f"/tmp/sw-{tag}-{os.getpid()}"
    sh(f"git -C /repo worktree remove --force {wt}")
    rc, out = sh(f"git -C /repo worktree add -f --detach {wt} HEAD")
    if rc != 0:
        raise RuntimeError(out)
    return wt


def drop(wt):
    sh(f"git -C /repo worktree remove --force {wt}")
    shutil.rmtree(wt, ignore_errors=True)
    sh("git -C /repo worktree prune")


def confirm(d):
    tag = os.path.basename(d.rstrip("/"))
    res = {"at_repo_head": sh("git -C /repo rev-parse --short HEAD")[1].strip()}
    wt = worktree(tag)
    try:
        env = dict(os.environ, PYTHONPATH=wt, PYTHONDONTWRITEBYTECODE="1", PYTHONHASHSEED="0")
        rc0, out0 = sh(f"{PY} {d}/demo.py", cwd="/tmp", env=env, timeout=900)
        res["demo_without"] = rc0
        rc, out = sh(f"git apply --3way {d}/patch.diff 2>&1 || git apply {d}/patch.diff", cwd=wt)
        res["applies"] = (rc == 0)
        if rc != 0:
            res["apply_output"] = out[-600:]
            return res
        rc, out = sh(f"{PY} -m pytest -q -p no:cacheprovider -x --deselect tests/test_version.py 2>&1 | tail -3",
                     cwd=wt, env=env, timeout=1800)
        m = re.search(r"(\d+) passed", out)
        res["tests_passed"] = int(m.group(1)) if m else 0
        res["tests_failed"] = "failed" in out
        rc1, out1 = sh(f"{PY} {d}/demo.py", cwd="/tmp", env=env, timeout=900)
        res["demo_with"] = rc1
        res["demo_with_tail"] = out1[-500:]
    finally:
        drop(wt)
    res["confirmed"] = bool(res.get("applies") and res.get("tests_passed", 0) >= 404 and not res.get("tests_failed")
                            and res.get("demo_without") == 0 and res.get("demo_with") not in (0, None))
    return res


def run(sid, tier="quick", props=None):
    d = os.path.join(VERIF, "seeded", sid)
    meta = json.load(open(os.path.join(d, "meta.json")))
    props = props or [meta["property"]]
    wt = worktree(sid)
    out_all = {}
    try:
        rc, out = sh(f"git apply --3way {d}/patch.diff 2>&1 || git apply {d}/patch.diff", cwd=wt)
        if rc != 0:
            return {"error": "patch does not apply: " + out[-400:]}
        for prop in props:
            env = dict(os.environ, VERIF_REPO=wt)
            t0 = time.time()
            rc, out = sh(f"./check {prop} --tier {tier}", cwd=VERIF, env=env, timeout=7200)
            lines = [l for l in out.split("\n") if l.startswith(("VIOLATION", "OK ", "CHECK-ERROR", "KNOWN-FINDING"))]
            detected = rc == 1 and any(l.startswith("VIOLATION") for l in lines)
            replay = None
            for l in lines:
                m = re.search(r"replay=(\S+)", l)
                if m and replay is None:
                    replay = m.group(1)
            what = None
            if replay and os.path.exists(replay):
                try:
                    r = json.load(open(replay))
                    what = {k: r[k] for k in ("kind", "broken", "detail") if k in r}
                except Exception:
                    pass
            out_all[prop] = {"exit": rc, "detected": detected, "lines": [l[:300] for l in lines if not l.startswith("KNOWN")][:4],
                             "no_failing_input": any("no-failing-input-found" in l for l in lines),
                             "replay_summary": json.dumps(what, default=str)[:600] if what else None,
                             "tier": tier, "wall_s": round(time.time() - t0, 1),
                             "verif_commit": sh(f"git -C {VERIF} rev-parse --short HEAD")[1].strip()}
    finally:
        drop(wt)
        # the check wrote evidence for the mutated tree: never keep that
        [sh(f"git -C {VERIF} checkout -- evidence/{p}.json 2>/dev/null") for p in props]
    meta.setdefault("checks", {}).update(out_all)
    json.dump(meta, open(os.path.join(d, "meta.json"), "w"), indent=1)
    return out_all


def main():
    a = sys.argv[1:]
    if a[0] == "confirm":
        print(json.dumps(confirm(os.path.abspath(a[1])), indent=1))
    elif a[0] == "run":
        tier = a[a.index("--tier") + 1] if "--tier" in a else "quick"
        props = a[a.index("--props") + 1].split(",") if "--props" in a else None
        print(json.dumps(run(a[1], tier, props), indent=1))
    elif a[0] == "all":
        only = a[a.index("--only") + 1].split(",") if "--only" in a else None
        for sid in sorted(os.listdir(os.path.join(VERIF, "seeded"))):
            if not os.path.exists(os.path.join(VERIF, "seeded", sid, "meta.json")):
                continue
            if only and not any(sid.startswith(o) for o in only):
                continue
            print(sid, json.dumps(run(sid)))


if __name__ == "__main__":
    main()
