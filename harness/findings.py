"""findings.py — trigger predicates of known findings listed in known_findings.json under their old names.

A failing case is attributed to an open finding only if its predicate holds for the *case*
(input / history), and — rule (iii) of DESIGN.md §2.5 — removing the triggering feature from the
case makes the failure disappear; anything else stays a violation.
The predicates of the open C10 findings are in findings_C10.py."""


def comment_on_overlong_line(case, params):
    """F-C10-comment-wrap was repaired by /repo commit 5ca937a (findings/C10.fixed.json).  Nothing is attributed
    to it any more: if a '$' or C comment on a wrapped line is written as data again, that is a violation
    (regression case corpus/C10/fixed-comment-wrap.json)."""
    return False
