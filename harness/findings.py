"""findings.py — trigger predicates of the open known findings (known_findings.json).

A failing case is attributed to an open finding only if its predicate holds for the *case*
(input / history), and — rule (iii) of DESIGN.md §2.5 — removing the triggering feature from the
case makes the failure disappear; anything else stays a violation."""
import re


def _strip_comments(text):
    out = []
    for l in text.split("\n"):
        if re.match(r"^ {0,4}[cC]( |$)", l) and out and out[0] is not None and len(out) > 1:
            continue
        i = l.find("$")
        out.append(l if i < 0 else l[:i].rstrip())
    return "\n".join(out)


def comment_on_overlong_line(case, params):
    """F-C10-comment-wrap: a '$' or C comment sits on a line that must be wrapped."""
    import props.C10 as C10
    c = case.get("case")
    if not c or "text" not in c or case.get("kind") != "regimes-differ":
        return False
    if "$" not in c["text"]:
        return False
    lines = c["text"].split("\n")
    # keep the title line untouched (a '$' there is not a comment)
    head = 1
    if lines and lines[0].upper().startswith("MESSAGE:"):
        while head < len(lines) and lines[head - 1].strip():
            head += 1
        head += 1
    stripped = "\n".join(lines[:head]) + "\n" + _strip_comments("\n".join(lines[head:]))
    c2 = dict(c, text=stripped)
    return C10.check_problem(c2) is None
