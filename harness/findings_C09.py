"""findings_C09.py — trigger predicates of the open known findings of C09 (findings/C09.entries.json).

There is no open finding at the moment: the seven defects this check found (LAT=None on the cell card, a new importance
tree labelled with all of MODE, IMP:n=0.0 outside MODE, Cell() without universe with U in the data block, del
cell.volume with VOL in the data block, a value fused with a trailing jump in a rewritten vector, a repeat shortcut
swallowing a U entry that differs only in its minus sign) were repaired in
/repo (findings/C09.fixed.json); their replays are regression cases in corpus/C09/ and fail the check if a defect
returns.

How a predicate for a new finding has to be built (kept from the time the findings were open):
  (i)   the failure is of the finding's kind (and, for a crash, of its exception class / message),
  (ii)  the *case* has the triggering feature: the model (coq/Model/Place.v), run on the case, reports that a side
        condition of the _partial theorems fails on the final state (letters of `diag`: P partition condition,
        M classifier outside MODE, C / F the two refusals), or a feature of the input text,
  (iii) the case passes the whole oracle once the feature is neutralised (props.C09.neutralised: the class is printed
        in the other block; shortcuts and trailing jumps of the modifier cards are expanded in the input).
Anything else stays a violation."""


def _core(case):
    c = case.get("case")
    if not c or "text" not in c or "ops" not in c:
        return None
    return c


def _passes_neutralised(c, diag):
    import props.C09 as C09
    try:
        return C09.check_case(C09.neutralised(c, diag)) is None
    except Exception:
        return False

