"""findings_C09.py — trigger predicates of the open known findings of C09 (findings/C09.entries.json).

There is no open finding at the moment: the seven defects this check found (LAT=None on the cell card, a new importance
tree labelled with all of MODE, IMP:n=0.0 outside MODE, Cell() without universe with U in the data block, del
cell.volume with VOL in the data block, a value fused with a trailing jump in a rewritten vector, a repeat shortcut
swallowing a U entry that differs only in its minus sign) were repaired in
/repo (findings/C09.fixed.json); their replays are regression cases in corpus/C09/ and fail the check if a defect
returns.

How a predicate for a new finding has to be built (kept from the time the findings were open):
  (i)   the failure is of the finding's kind (and, for a crash, of its exception class / message),
  (ii)  the *case* has the triggering feature: the model (coq/Model/Place.v), run on the case, reports that a side
        condition of the _partial theorems fails on the final state (letters of `diag`: P partition condition,
        M classifier outside MODE, C / F the two refusals), or a feature of the input text,
  (iii) the case passes the whole oracle once the feature is neutralised (props.C09.neutralised: the class is printed
        in the other block; shortcuts and trailing jumps of the modifier cards are expanded in the input).
Anything else stays a violation."""


def _core(case):
    c = case.get("case")
    if not c or "text" not in c or "ops" not in c:
        return None
    return c


def _passes_neutralised(c, diag):
    import props.C09 as C09
    try:
        return C09.check_case(C09.neutralised(c, diag)) is None
    except Exception:
        return False



# --------------------------------------------------------------------------- placement and comments / line structure
# (found by the round-trip builder with the edit kind "placement": notes/_RT_shared.md; /repo is frozen, not repaired)
import re as _re

_MOD = _re.compile(r"^\s{0,4}\*?(imp:[a-z|,#/+\-!<>@*?%^_~]+|vol|u|lat|fill)\b", _re.I)
_CLS = {"imp": "imp", "vol": "vol", "u": "u", "lat": "lat", "fil": "fill"}


def _blocks(text):
    """(cell block lines, data block lines) of an input text (title line first, no message block)"""
    lines = text.split("\n")
    out, cur = [], []
    for l in lines[1:]:
        if l.strip() == "":
            out.append(cur)
            cur = []
        else:
            cur.append(l)
    out.append(cur)
    out += [[]] * 3
    return out[0], out[2]


def _final_flags(c):
    import props.C09 as C09
    try:
        return C09.run_real({"text": c["text"], "ops": c["ops"]}).get("flags") or {}
    except Exception:
        return {}


def _data_cards_with_comments(text):
    """[(class, card lines incl. the C lines before it)] of the data-block cards of the five classes that carry a
    '$' comment or follow a C comment line"""
    _, data = _blocks(text)
    out = []
    pending = []
    i = 0
    while i < len(data):
        l = data[i]
        if _re.match(r"^\s{0,4}c(\s|$)", l, _re.I):
            pending.append(l)
            i += 1
            continue
        m = _MOD.match(l)
        card = [l]
        j = i + 1
        while j < len(data) and (data[j].startswith("     ") or card[-1].split("$")[0].rstrip().endswith("&")):
            card.append(data[j])
            j += 1
        if m and (pending or any("$" in x for x in card)):
            out.append((_CLS[m.group(1).lower()[:3]], pending + card))
        pending = []
        i = j
    return out


def _strip_data_comments(text):
    """the input without the comments on / before the data-block cards of the five classes (same meaning)"""
    cell, data = _blocks(text)
    bad = set()
    for _, lines in _data_cards_with_comments(text):
        for l in lines:
            bad.add(l)
    out = []
    in_data = False
    blank = 0
    for l in text.split("\n"):
        if l.strip() == "":
            blank += 1
        if blank >= 2 and l in bad:
            if _re.match(r"^\s{0,4}c(\s|$)", l, _re.I):
                continue
            l = l.split("$")[0].rstrip()
        out.append(l)
    return "\n".join(out)


def _passes(c2):
    import props.C09 as C09
    try:
        return C09.check_case(c2) is None
    except Exception:
        return False


def C09_data_comment_into_cell(case, params):
    """a data-block card of the five classes with a '$' comment, printed in the cell block: the comment travels with
    the last value node into a cell card and hides the parameters written after it"""
    c = _core(case)
    if c is None or case.get("kind") not in ("datum-count", "reread-differs", "reread-raises"):
        return False
    fl = _final_flags(c)
    cards = [(k, ls) for k, ls in _data_cards_with_comments(c["text"]) if any("$" in x for x in ls) and fl.get(k) is False]
    if not cards:
        return False
    return _passes({"text": _strip_data_comments(c["text"]), "ops": c["ops"]})


def C09_data_card_comments_lost(case, params):
    """a data-block card of the five classes with comments (C line before it, '$' on it), printed in the cell block:
    the card is not written and its comments vanish"""
    c = _core(case)
    if c is None or case.get("kind") != "comment-lost":
        return False
    fl = _final_flags(c)
    texts = []
    for k, ls in _data_cards_with_comments(c["text"]):
        if fl.get(k) is False:
            for l in ls:
                if "$" in l:
                    texts.append(l.split("$", 1)[1].strip().lower())
                elif _re.match(r"^\s{0,4}c(\s|$)", l, _re.I):
                    texts.append(l.strip()[1:].strip().lower())
    lost = [str(x).lower() for x in (case.get("detail") or [])]
    return bool(lost) and all(x in texts for x in lost)


_KEY_THEN_COMMENT = _re.compile(r"(imp:[a-z,]+|vol|u|lat|fill)\s*=?\s*\$", _re.I)


def C09_comment_between_key_and_value(case, params):
    """a cell parameter of the five classes whose '$' comment stands between the key and the value (value on the next
    line), printed in the data block: that comment is lost"""
    c = _core(case)
    if c is None or case.get("kind") != "comment-lost":
        return False
    fl = _final_flags(c)
    cell, _ = _blocks(c["text"])
    texts = []
    for l in cell:
        m = _KEY_THEN_COMMENT.search(l.split("$")[0] + "$") if "$" in l else None
        if m and l.split("$")[0].rstrip().lower().endswith((m.group(1).lower(), m.group(1).lower() + "=")):
            k = _CLS[m.group(1).lower()[:3]]
            if fl.get(k) is True:
                texts.append(l.split("$", 1)[1].strip().lower())
    lost = [str(x).lower() for x in (case.get("detail") or [])]
    return bool(lost) and all(x in texts for x in lost)


def C09_imp_cells_to_data_block(case, params):
    """a cell card whose IMP parameter is followed by an '&' continuation, IMP printed in the data block: the '&'
    goes into the new data card ('imp:e 1 &'), which swallows the card after it"""
    c = _core(case)
    if c is None or case.get("kind") not in ("misaligned", "vector-entry", "datum-count", "reread-differs", "reread-raises"):
        return False
    if _final_flags(c).get("imp") is not True:
        return False
    cell, _ = _blocks(c["text"])
    if not any(_re.search(r"imp:[a-z,]+\s*=?\s*[-+.0-9e]+\s*&\s*$", l, _re.I) for l in cell):
        return False
    # the same input with 5-blank continuation lines instead of '&'
    lines = c["text"].split("\n")
    out = []
    cont = False
    for l in lines:
        if cont and l.strip():
            l = "     " + l.lstrip()
        cont = l.split("$")[0].rstrip().endswith("&")
        if cont:
            l = l.split("$")[0].rstrip()[:-1].rstrip()
        out.append(l)
    return _passes({"text": "\n".join(out), "ops": c["ops"]})


def C09_classifier_emptied_by_data_write(case, params):
    """a cell parameter 'imp:x,y=v' (one tree for several particles), a write_to_file while IMP is printed in the
    data block, then IMP printed in the cell block: the cell's classifier has lost its particles ('imp:=2 imp:=2');
    or, after that write, cell.importance.<particle> = v raises KeyError (_unshare_tree removes the particle from
    the emptied classifier)"""
    import props.C09 as C09
    c = _core(case)
    if c is None or case.get("kind") not in ("imp-key-unreadable", "statement-raises"):
        return False
    if case.get("kind") == "statement-raises":
        d = case.get("detail") or []
        if len(d) < 2 or d[1] != "KeyError" or d[0][0] not in ("I", "S"):
            return False
    cell, _ = _blocks(c["text"])
    if not any(_re.search(r"imp:[a-z]+,[a-z,]+\s*=?", l, _re.I) for l in cell):
        return False
    # an intermediate write_to_file while IMP is printed in the data block: a flip of imp to True before a write
    flag, seen = False, False
    for o in c["ops"]:
        if o[0] == "F" and o[1] == "imp":
            flag = bool(o[2])
        if o[0] == "Wr" and flag:
            seen = True
    if not seen:
        return False
    return _passes({"text": c["text"], "ops": [o for o in c["ops"] if o[0] != "Wr"], "warnings": c.get("warnings")})
