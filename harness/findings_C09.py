"""findings_C09.py — trigger predicates of the open known findings of C09 (findings/C09.entries.json).

A failing case is attributed to a finding only if
  (i)   the failure is of the finding's kind (and, for a crash, of its exception class / message),
  (ii)  the *case* has the triggering feature: the model (coq/Model/Place.v), run on the case, reports that the side
        condition of the corresponding _partial theorem fails on the final state (letters L P M U V of `diag`), or
        — for the fused-token finding — a data-block card of the five classes ends with a jump in the input,
  (iii) the case passes the whole oracle once every diagnosed feature is neutralised (the class is printed in the
        other block; shortcuts of the modifier cards are expanded in the input).
Anything else stays a violation."""
import json

KINDS = {
    "L": ("value-mismatch",),
    "P": ("datum-count", "write-raises"),
    "M": ("spurious-datum",),
    "U": ("write-raises",),
    "V": ("write-raises",),
}


def _core(case):
    c = case.get("case")
    if not c or "text" not in c or "ops" not in c:
        return None
    return c


def _passes_neutralised(c, diag):
    import props.C09 as C09
    try:
        return C09.check_case(C09.neutralised(c, diag)) is None
    except Exception:
        return False


def _by_letter(case, letter, exc=None, msg=None):
    import props.C09 as C09
    c = _core(case)
    if c is None or case.get("kind") not in KINDS[letter]:
        return False
    if case.get("kind") == "write-raises":
        d = case.get("detail") or ["", ""]
        if exc and d[0] != exc:
            return False
        if msg and msg not in str(d[1]):
            return False
    diag = C09.model_diag(c)
    if letter not in diag:
        return False
    return _passes_neutralised(c, diag)


def C09_lat_not_from_cell_card(case, params):
    """LAT printed in the cell block although its value node is not the node of the cell's own tree"""
    return _by_letter(case, "L")


def C09_imp_tree_names_other_particles(case, params):
    """an importance tree whose classifier names particles that do not share the tree (set on a linked cell)"""
    return _by_letter(case, "P", exc="ValueError", msg="list.remove")


def C09_imp_held_for_particle_outside_mode(case, params):
    """the blank cell-level Importance keeps a neutron tree although MODE has no neutron"""
    return _by_letter(case, "M")


def C09_u_none_in_data_block(case, params):
    return _by_letter(case, "U", exc="AttributeError", msg="'number'")


def C09_volume_deleted_in_data_block(case, params):
    return _by_letter(case, "V", exc="AttributeError", msg="'value'")


def C09_vector_shortcut_garbled(case, params):
    """a data-block card of the five classes that has shortcuts in the input (nJ nR nI nM, also a last token 'j')
    is rewritten after its values changed (cells added / removed / reordered, values edited) with tokens that
    are neither numbers nor shortcuts ('j10', '0RJ'): ListNode.update_with_new_values / ShortcutNode.format (C08)"""
    import props.C09 as C09
    c = _core(case)
    if c is None or case.get("kind") not in ("vector-entry", "misaligned"):
        return False
    if C09.expand_modifier_shortcuts(c["text"]) == c["text"]:
        return False
    return _passes_neutralised(c, C09.model_diag(c))
