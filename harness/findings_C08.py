"""findings_C08.py — trigger predicates of the open C08 findings (findings/C08.entries.json).

A failing case is attributed to a finding only if the predicate holds for the *case* (the tokens of the list and the
card it is read through) and removing the triggering feature - the xM token replaced by the number it stands for -
makes the failure disappear; any other failure of the same case stays a violation."""
import re
from fractions import Fraction


def _m_positions(toks):
    return [i for i, t in enumerate(toks) if t.get("k") == "m"]


def _without_multiply(case):
    """the same list with every xM written as the product it stands for"""
    import spec
    toks = [dict(t) for t in case["toks"]]
    for i in _m_positions(toks):
        text = " ".join(t["t"] for t in toks[:i + 1])
        try:
            v = spec.expand_shortcuts(spec.tokens(text))[-1]
        except Exception:
            return None
        if not isinstance(v, Fraction):
            return None
        f = float(v)
        toks[i] = {"k": "n", "t": repr(int(f)) if f == int(f) and abs(f) < 1e15 else repr(f)}
    return dict(case, toks=toks)


def _passes_without_multiply(case):
    import props.C08 as C08
    c2 = _without_multiply(case)
    if c2 is None:
        return False
    try:
        return C08.run_read_case(c2) is None
    except Exception:
        return False


def C08_data_block_multiply(fcase, params):
    """F-C08-data-block-multiply: an xM token in a card that is read by the data-block parser"""
    c = fcase.get("case") or {}
    if fcase.get("stream") != "read" or c.get("card") not in ("e", "vol", "tr"):
        return False
    if not _m_positions(c.get("toks", [])):
        return False
    if fcase.get("kind") not in ("misread:word", "rejected"):
        return False
    return _passes_without_multiply(c)


def C08_real_multiplier(fcase, params):
    """F-C08-real-multiplier: an xM token whose x is not written as a whole number"""
    c = fcase.get("case") or {}
    if fcase.get("stream") != "read" or fcase.get("kind") != "rejected":
        return False
    toks = c.get("toks", [])
    if not any(re.search(r"[.eE]", toks[i]["t"][:-1]) for i in _m_positions(toks)):
        return False
    return _passes_without_multiply(c)



def C08_tr_zero_rotation(fcase, params):
    """F-C08-tr-zero-rotation: a TR input whose rotation entries are all zeros or jumps, written with shortcuts"""
    import spec
    c = fcase.get("case") or {}
    if fcase.get("stream") != "direct" or c.get("card") != "tr" or fcase.get("kind") != "wrong-count":
        return False
    try:
        want = spec.expand_shortcuts(spec.tokens(" ".join(t["t"] for t in c["toks"])))
    except Exception:
        return False
    cur = list(want)
    for i, v in c.get("edits", []):
        if i < len(cur):
            cur[i] = Fraction(v)
    if len(cur) != 12 or not all(x == "J" or x == 0 for x in cur[3:12]):
        return False
    # with one rotation entry that is not zero the same card is written in full
    import props.C08 as C08
    c2 = dict(c, edits=list(c.get("edits", [])) + [[11, 1.0]])
    try:
        return C08.run_direct_case(c2) is None
    except Exception:
        return False
