"""edits.py — programs of *valid* edits through MontePy's public API (DESIGN.md §5.4), with, for the
oracles, what each edit is expected to change in the written file:

   apply(problem, edit) -> list of expectations
   expectation = ("renumber", kind, old, new)        kind in cell|surface|material|transform|universe
               | ("value", card_block, card_id, description, new_value)   a quantity of one card
               | ("title", text)

An edit is a JSON-able dict; generation only looks at the *meta* of the generated problem
(gen.gen_problem) so that programs replay on a fresh read of the same text.
"""
import random


class Inapplicable(Exception):
    """the edit names an object that this problem does not have (a shrunk text): not a verdict"""


KINDS = ["cell_number", "surface_number", "material_number", "transform_number",
         "surface_constant", "density", "importance", "volume", "title", "fraction",
         "tr_displacement", "universe_number", "material_assign",
         "cell_universe", "fill_universe", "lattice", "boundary", "thermal_law", "tr_degrees", "surface_transform", "placement", "tr_rotation"]
# "data_append" (problem.data_inputs.append(<new data input>)) is drawn for C19 only (props/C19.py)
# "placement" = problem.print_in_data_block[key] = bool: which block per-cell data are written in does not change what
# the file denotes (C09's subject), but it rewrites every cell card and the data-block vectors: an edit like any other


def gen_program(rng, meta, n=None, kinds=None):
    n = n if n is not None else rng.choice([1, 1, 2, 3, 5, 8, 13, 30])
    kinds = kinds or KINDS
    prog = []
    used = {"cell": set(meta["cells"]), "surface": set(meta["surfaces"]), "material": set(meta["materials"]),
            "transform": set(meta["transforms"]), "universe": set(meta["universes"].values())}
    cur = {k: {x: x for x in used[k]} for k in used}   # original number -> current number
    member = dict(meta["universes"])                   # cell -> (original number of) its universe

    freed = {k: [] for k in used}                      # numbers that an earlier renumbering gave up

    def fresh(kind, orig=None):
        """a new number for the object with original number orig: never one that is in use NOW; one time in
        three a number that an earlier edit of the program freed ("new numbers not in use": 1 -> 10, then 2 -> 1)"""
        old = cur[kind].get(orig)
        x = None
        free_now = [f for f in freed[kind] if f not in used[kind]]
        if free_now and rng.random() < 0.35:
            x = rng.choice(free_now)
        while x is None:
            y = rng.choice([rng.randint(1, 99), rng.randint(100, 99999)])
            if y not in used[kind]:
                x = y
        used[kind].add(x)
        if old is not None:
            used[kind].discard(old)
            freed[kind].append(old)
            cur[kind][orig] = x
        return x

    if "placement" in kinds and meta.get("place") and rng.random() < 0.3:
        # a placement scenario: per-cell data of one kind move to the other block, then one cell's datum is edited
        key = rng.choice(["imp", "imp", "vol", "u"])
        if meta["place"].get("imp") == "data" and rng.random() < 0.6:
            key = "imp"
        if key == "imp" and meta["place"].get("imp") != "data":
            key = "vol"       # (importances only move from the data block to the cells: see _placement_plain)
        prog.append({"kind": "placement", "key": key, "data_block": meta["place"].get(key) != "data"})
        c = rng.choice(meta["cells"])
        if key == "imp":
            c = meta["cells"][0] if rng.random() < 0.5 else c     # (the first cell: every other cell is written after it)
            prog.append({"kind": "importance", "orig": c, "particle": rng.choice(meta["particles"]),
                         "value": rng.choice([0.0, 2.0, 4.0, 0.5, 8.0])})
        elif key == "vol":
            have = [x for x in meta["cells"] if x in meta.get("vols", {})]
            if have and rng.random() < 0.8:
                c = rng.choice(have)
            prog.append({"kind": "volume", "orig": c, "value": rng.choice([2.5, 100.0, 0.125])})
    for _ in range(n):
        k = rng.choice(kinds)
        if k == "cell_number":
            o = rng.choice(meta["cells"])
            new = fresh("cell", o)
            prog.append({"kind": k, "orig": o, "new": new})
        elif k == "surface_number":
            o = rng.choice(meta["surfaces"])
            prog.append({"kind": k, "orig": o, "new": fresh("surface", o)})
        elif k == "material_number" and meta["materials"]:
            o = rng.choice(meta["materials"])
            prog.append({"kind": k, "orig": o, "new": fresh("material", o)})
        elif k == "transform_number" and meta["transforms"]:
            o = rng.choice(meta["transforms"])
            prog.append({"kind": k, "orig": o, "new": fresh("transform", o)})
        elif k == "universe_number" and meta["universes"]:
            o = rng.choice(sorted(set(meta["universes"].values())))
            prog.append({"kind": k, "orig": o, "new": fresh("universe", o)})
        elif k == "surface_constant":
            o = rng.choice(meta["surfaces"])
            nconst = len(meta["surface_constants"][o])
            interp = meta.get("surface_interpolated") or {}
            if interp and rng.random() < 0.4:
                # a constant that an interpolate shortcut generated
                o = rng.choice(sorted(interp))
                idx = rng.choice(interp[o])
                prog.append({"kind": k, "orig": o, "index": idx, "value": rng.choice([2.5, 0.125, 12.0, -7.75])})
                continue
            prog.append({"kind": k, "orig": o, "index": rng.randrange(nconst),
                         "value": rng.choice([2.5, 0.125, 12.0, 1.0e-3, -7.75, 300.0, 0.5, 64.0, 5.0000005, 2.5e-7,
                                              -3.0000002, 63.9999996])})
        elif k == "density":
            o = rng.choice(meta["cells"])
            # one time in three the magnitude the cell has NOW is assigned again (value "same"), in either mode: a
            # switch atom <-> mass density that keeps the number, or an assignment that changes nothing
            prog.append({"kind": k, "orig": o,
                         "value": "same" if rng.random() < 0.34 else
                         rng.choice([1.5, 0.25, 10.0, 2.0e-2, 7.875, 2.71828, 3.5, 1.0000004]),
                         "atom": rng.random() < 0.5})
        elif k == "importance":
            o = rng.choice(meta["cells"])
            prog.append({"kind": k, "orig": o, "particle": rng.choice(meta["particles"]),
                         "value": rng.choice([0.0, 1.0, 2.0, 4.0, 0.5, 8.0])})
        elif k == "volume":
            o = rng.choice(meta["cells"])
            prog.append({"kind": k, "orig": o, "value": rng.choice([1.0, 2.5, 100.0, 0.125, 3.0e4, 2.0000004, 7.5e-7])})
        elif k == "title":
            prog.append({"kind": k, "value": rng.choice(["a new title", "Edited  title 2", "x"])})
        elif k == "fraction" and meta["materials"]:
            o = rng.choice(meta["materials"])
            zs = meta.get("material_zaids", {}).get(o)
            if zs:
                # the index-th ZAID/fraction pair of the card; a ZAID listed twice is one component in MontePy
                # (which of the two fractions the API edits is not defined): not edited
                idx = rng.randrange(len(zs))
                if zs.count(zs[idx]) == 1:
                    prog.append({"kind": k, "orig": o, "index": idx, "zaid": zs[idx],
                                 "value": rng.choice([0.5, 0.25, 2.0, 1.0e-2, 0.75, 1.0000005, 4.0e-7])})
        elif k == "tr_displacement" and meta["transforms"]:
            o = rng.choice(meta["transforms"])
            prog.append({"kind": k, "orig": o, "index": rng.randrange(3),
                         "value": rng.choice([1.5, -2.25, 10.0, 0.5, 3.0000002, -2.5e-7])})
        elif k == "material_assign" and len(meta["materials"]) >= 1:
            o = rng.choice(meta["cells"])
            prog.append({"kind": k, "orig": o, "material": rng.choice(meta["materials"])})
        elif k == "cell_universe" and meta["universes"]:
            # move a cell that is in a universe into another existing universe (addressed by original number);
            # a universe that a FILL refers to must keep at least one cell, or the problem is no longer valid
            o = rng.choice(sorted(meta["universes"]))
            target = rng.choice(sorted(set(meta["universes"].values())))
            src = member[o]
            if src != target and sum(1 for c in member if member[c] == src) >= 2:
                member[o] = target
                prog.append({"kind": k, "orig": o, "universe": target})
        elif k == "fill_universe" and meta["fills"] and meta["universes"]:
            o = rng.choice(sorted(meta["fills"]))
            prog.append({"kind": k, "orig": o, "universe": rng.choice(sorted(set(meta["universes"].values())))})
        elif k == "lattice" and meta["fills"]:
            o = rng.choice(sorted(meta["fills"]))
            prog.append({"kind": k, "orig": o, "value": rng.choice([1, 2])})
        elif k == "boundary":
            o = rng.choice(meta["surfaces"])
            # how the two flags are assigned: the other flag cleared first, the wanted flag set first (a surface that
            # carried the other condition has both flags for a moment), or 'noop': False assigned to every flag that
            # is False already (nothing may change; 'value' is not used then)
            prog.append({"kind": k, "orig": o, "value": rng.choice(["reflecting", "white", "none"]),
                         "how": rng.choice(["clear-first", "set-first", "set-first", "noop"])})
        elif k == "thermal_law" and meta.get("material_laws"):
            o = rng.choice(sorted(meta["material_laws"]))
            prog.append({"kind": k, "orig": o, "laws": rng.choice([["grph.20t"], ["lwtr.10t", "poly.01t"], ["be.10t"]])})
        elif k == "tr_degrees" and meta["transforms"]:
            o = rng.choice(meta["transforms"])
            prog.append({"kind": k, "orig": o, "value": rng.random() < 0.5})
        elif k == "tr_rotation" and meta["transforms"]:
            # a rotation matrix of a valid length (5, 6 or 9 entries); half of the time one entry more than was read
            o = rng.choice(meta["transforms"])
            had = int(meta.get("tr_rotation_entries", {}).get(o, 0))
            m = had + 1 if (had + 1 in (5, 6, 9) and rng.random() < 0.5) else rng.choice([5, 6, 9])
            prog.append({"kind": k, "orig": o,       # (never all zeros: that is no rotation matrix)
                         "matrix": [rng.choice([1.0, -1.0, 0.5])] +
                                   [rng.choice([0.0, 1.0, -1.0, 0.5, 0.25, 0.866]) for _ in range(m - 1)]})
        elif k == "tr_main_to_aux" and meta.get("tr_flag"):
            o = rng.choice(sorted(meta["tr_flag"]))
            # three times in four the flag is flipped (relative to what the card says)
            now = not str(meta["tr_flag"][o]).startswith("-")
            prog.append({"kind": k, "orig": o, "value": (not now) if rng.random() < 0.75 else now})
        elif k == "geometry_operator":
            # the operator of a cell's top-level geometry; most of the time followed by the opposite assignment
            # (two edits that cancel: with an observation in between for C19)
            o = rng.choice(meta["cells"])
            prog.append({"kind": k, "orig": o, "value": "union", "pattern": "there-and-back"})
            if rng.random() < 0.7:
                prog.append({"kind": k, "orig": o, "value": "intersection", "pattern": "there-and-back"})
        elif k == "data_append":
            prog.append({"kind": k, "text": rng.choice(["ctme 60", "prdmp 2j 1", "void", "dbcn 12345"])})
        elif k == "placement":
            # where per-cell data are written: cell parameters or data-block vectors (the denotation is the same)
            prog.append({"kind": k, "key": rng.choice(["imp", "vol", "u"]), "data_block": rng.random() < 0.5})
        elif k == "surface_transform" and meta["transforms"]:
            # give a surface a transform, another one, or none (del surface.transform)
            o = rng.choice(meta["surfaces"])
            prog.append({"kind": k, "orig": o, "transform": rng.choice(meta["transforms"] + [None])})
    return prog


class Handles:
    """objects of a freshly read problem addressed by their ORIGINAL numbers"""

    def __init__(self, pr):
        self.pr = pr
        self.cells = {c.number: c for c in pr.cells}
        self.surfaces = {s.number: s for s in pr.surfaces}
        self.materials = {m.number: m for m in pr.materials}
        self.transforms = {t.number: t for t in pr.transforms}
        self.universes = {u.number: u for u in pr.universes}


def apply(h, e):
    """apply one edit; returns (applied?, expectations).  Edits whose preconditions do not hold on
    this problem (e.g. density of a void cell) are skipped, not errors."""
    k = e["kind"]
    pr = h.pr
    table = {"cell": h.cells, "surface": h.surfaces, "material": h.materials, "transform": h.transforms}
    own = {"cell_number": "cell", "density": "cell", "importance": "cell", "volume": "cell", "material_assign": "cell",
           "cell_universe": "cell", "fill_universe": "cell", "lattice": "cell",
           "surface_number": "surface", "surface_constant": "surface", "boundary": "surface",
           "surface_transform": "surface",
           "material_number": "material", "fraction": "material", "thermal_law": "material",
           "transform_number": "transform", "tr_displacement": "transform", "tr_degrees": "transform",
           "tr_rotation": "transform", "tr_main_to_aux": "transform", "geometry_operator": "cell"}
    if k in own and e["orig"] not in table[own[k]]:
        raise Inapplicable(f"{own[k]} {e['orig']}")
    if k == "material_assign" and e["material"] not in h.materials:
        raise Inapplicable(f"material {e['material']}")
    if k == "cell_number":
        c = h.cells[e["orig"]]
        old = c.number
        c.number = e["new"]
        return True, [("renumber", "cell", old, e["new"])]
    if k == "surface_number":
        s = h.surfaces[e["orig"]]
        old = s.number
        s.number = e["new"]
        return True, [("renumber", "surface", old, e["new"])]
    if k == "material_number":
        m = h.materials[e["orig"]]
        old = m.number
        m.number = e["new"]
        return True, [("renumber", "material", old, e["new"])]
    if k == "transform_number":
        t = h.transforms[e["orig"]]
        old = t.number
        t.number = e["new"]
        return True, [("renumber", "transform", old, e["new"])]
    if k == "universe_number":
        u = h.universes.get(e["orig"])
        if u is None:
            return False, []
        old = u.number
        u.number = e["new"]
        return True, [("renumber", "universe", old, e["new"])]
    if k == "surface_constant":
        s = h.surfaces[e["orig"]]
        c = list(s.surface_constants)
        if e["index"] >= len(c):
            return False, []
        c[e["index"]] = e["value"]
        s.surface_constants = c
        return True, [("value", 1, s.number, ("constant", e["index"]), e["value"])]
    if k == "density":
        c = h.cells[e["orig"]]
        if c.material is None:
            return False, []
        v = e["value"]
        if v == "same":
            v = c.atom_density if c.is_atom_dens else c.mass_density
            if v is None:
                return False, []
        if e["atom"]:
            c.atom_density = v
        else:
            c.mass_density = v
        return True, [("value", 0, c.number, ("density", e["atom"]), v)]
    if k == "importance":
        c = h.cells[e["orig"]]
        import montepy
        part = {p.value.lower(): p for p in montepy.particle.Particle}[e["particle"].lower()]
        c.importance[part] = e["value"]
        return True, [("value", 0, c.number, ("imp", e["particle"]), e["value"])]
    if k == "volume":
        c = h.cells[e["orig"]]
        c.volume = e["value"]
        return True, [("value", 0, c.number, ("vol",), e["value"])]
    if k == "title":
        pr.title = e["value"]
        return True, [("title", e["value"])]
    if k == "fraction":
        m = h.materials[e["orig"]]
        if "zaid" in e:
            comps = [c for iso, c in m.material_components.items() if iso.mcnp_str().lower() == e["zaid"].lower()]
            if len(comps) != 1:
                return False, []
            comps[0].fraction = e["value"]
        else:
            comps = list(m.material_components.values())
            if e["index"] >= len(comps) or len(comps) != len(m._tree["data"].nodes):
                return False, []
            comps[e["index"]].fraction = e["value"]
        return True, [("value", 2, m.number, ("fraction", e["index"]), e["value"])]
    if k == "tr_displacement":
        t = h.transforms[e["orig"]]
        v = t.displacement_vector.copy()
        v[e["index"]] = e["value"]
        t.displacement_vector = v
        return True, [("value", 2, t.number, ("displacement", e["index"]), e["value"])]
    if k == "material_assign":
        c = h.cells[e["orig"]]
        m = h.materials[e["material"]]
        if c.material is None or c.material is m:
            return False, []
        old = c.material.number
        c.material = m
        return True, [("value", 0, c.number, ("material",), m.number)]
    if k in ("cell_universe", "fill_universe"):
        c = h.cells[e["orig"]]
        u = h.universes.get(e["universe"])
        if u is None:
            raise Inapplicable(f"universe {e['universe']}")
        if k == "cell_universe":
            if c.universe is None or c.universe.number == 0:
                return False, []
            c.universe = u
        else:
            if c.fill.universe is None:
                return False, []
            c.fill.universe = u
        return True, [("value", 0, c.number, (k,), u.number)]
    if k == "lattice":
        import montepy
        c = h.cells[e["orig"]]
        if c.fill.universe is None:
            return False, []
        c.lattice = montepy.data_inputs.lattice.Lattice(e["value"])
        return True, [("value", 0, c.number, ("lat",), e["value"])]
    if k == "boundary" and e.get("how") == "noop":
        s = h.surfaces[e["orig"]]
        if not s.is_reflecting:
            s.is_reflecting = False
        if not s.is_white_boundary:
            s.is_white_boundary = False
        return True, []
    if k == "boundary" and e.get("how") == "set-first":
        s = h.surfaces[e["orig"]]
        if e["value"] == "reflecting":
            s.is_reflecting = True
            s.is_white_boundary = False
        elif e["value"] == "white":
            s.is_white_boundary = True
            s.is_reflecting = False
        else:
            s.is_white_boundary = False
            s.is_reflecting = False
        return True, [("value", 1, s.number, ("boundary",), e["value"])]
    if k == "tr_main_to_aux":
        t = h.transforms[e["orig"]]
        import numpy as np
        if len(t._tree["data"]) != 13 or t.rotation_matrix is None or np.size(t.rotation_matrix) != 9:
            return False, []          # only the full form carries the direction flag (see gen option tr_flag)
        t.is_main_to_aux = bool(e["value"])
        return True, [("value", 2, t.number, ("main_to_aux",), 1 if e["value"] else -1)]
    if k == "geometry_operator":
        from montepy.geometry_operators import Operator
        c = h.cells[e["orig"]]
        g = c.geometry
        if type(g).__name__ != "HalfSpace" or g.operator not in (Operator.UNION, Operator.INTERSECTION):
            return False, []
        if e.get("pattern") == "there-and-back":
            # only 'an intersection is made a union and (usually) an intersection again': the other direction (a
            # union of the file made an intersection and a union again) is the finding F-C19-operator-switched-back
            sw = h.__dict__.setdefault("switched", set())
            if e["value"] == "union":
                if g.operator != Operator.INTERSECTION:
                    return False, []
                sw.add(e["orig"])
            elif e["orig"] not in sw or g.operator != Operator.UNION:
                return False, []
        g.operator = Operator.UNION if e["value"] == "union" else Operator.INTERSECTION
        return True, []
    if k == "boundary":
        s = h.surfaces[e["orig"]]
        if e["value"] == "reflecting":
            s.is_white_boundary = False
            s.is_reflecting = True
        elif e["value"] == "white":
            s.is_reflecting = False
            s.is_white_boundary = True
        else:
            s.is_reflecting = False
            s.is_white_boundary = False
        return True, [("value", 1, s.number, ("boundary",), e["value"])]
    if k == "tr_rotation":
        import numpy as np
        t = h.transforms[e["orig"]]
        if len(e["matrix"]) < 9 and not t.is_main_to_aux:
            return False, []          # the direction flag -1 can only be written behind a full matrix
        t.rotation_matrix = np.array([float(x) for x in e["matrix"]])
        return True, [("value", 2, t.number, ("rotation",), len(e["matrix"]))]
    if k == "data_append":
        from montepy.input_parser.mcnp_input import Input
        from montepy.input_parser.block_type import BlockType
        from montepy.data_inputs.data_parser import parse_data
        obj = parse_data(Input([e["text"]], BlockType.DATA))
        obj.link_to_problem(pr)
        pr.data_inputs.append(obj)
        return True, [("data_append", e["text"])]
    if k == "placement":
        if pr.print_in_data_block[e["key"].upper()] == bool(e["data_block"]):
            return False, []
        if not _placement_plain(pr, e["key"], bool(e["data_block"])):
            return False, []      # outside this family's quantifier: see _placement_plain
        pr.print_in_data_block[e["key"].upper()] = bool(e["data_block"])
        return True, [("placement", e["key"], bool(e["data_block"]))]
    if k == "surface_transform":
        s = h.surfaces[e["orig"]]
        if s.periodic_surface is not None:
            return False, []
        if e["transform"] is None:
            if s.transform is None:
                return False, []
            del s.transform
            return True, [("value", 1, s.number, ("transform",), None)]
        if e["transform"] not in h.transforms:
            raise Inapplicable(f"transform {e['transform']}")
        s.transform = h.transforms[e["transform"]]
        return True, [("value", 1, s.number, ("transform",), h.transforms[e["transform"]].number)]
    if k == "thermal_law":
        m = h.materials[e["orig"]]
        if m.thermal_scattering is None:
            return False, []
        m.thermal_scattering.thermal_scattering_laws = list(e["laws"])
        return True, [("value", 2, m.number, ("law",), " ".join(e["laws"]))]
    if k == "tr_degrees":
        t = h.transforms[e["orig"]]
        t.is_in_degrees = bool(e["value"])
        return True, [("value", 2, t.number, ("degrees",), bool(e["value"]))]
    raise ValueError(k)


_MODKEY = {"imp": r"\*?imp:\S+", "vol": r"vol", "u": r"u", "fill": r"\*?fill", "lat": r"lat"}


def _placement_plain(pr, key, to_data_block):
    """Moving per-cell data between the blocks is property C09's subject; this family only draws it on problems
    whose layout keeps C09's open defects out: towards the cells only when every data-block card of that kind is one
    physical line without a comment (in it or directly after it) and within the column limit; towards the data block
    only when no cell has a comment or a line end between the key and its value."""
    import re
    from montepy.constants import get_max_line_length
    limit = get_max_line_length(pr.mcnp_version)
    pat = re.compile(r"^\s{0,4}" + _MODKEY[key] + r"(\s|=|$)", re.I)
    if not to_data_block:
        from montepy.utilities import is_comment
        prev = []
        for obj in pr._original_inputs:
            lines = getattr(obj, "input_lines", None) or []
            if lines and pat.match(lines[0]):
                if len(lines) != 1 or "$" in lines[0] or "&" in lines[0] or len(lines[0].rstrip()) > limit - 1:
                    return False
                if prev and is_comment(prev[-1]):
                    return False          # a comment line directly before the card is handed to it on read
            prev = lines or prev
        return True
    if key == "imp":
        return False      # importances of the cells collected into new data-block cards: C09's open defects
    inner = re.compile(r"(^|\s)" + _MODKEY[key] + r"\s*=?\s*(\$.*)?$", re.I)
    for cell in pr.cells:
        inp = getattr(cell, "_input", None)
        for l in (inp.input_lines if inp is not None else []):
            if inner.search(l.rstrip()):
                return False
    return True


def apply_program(pr, prog, observe=None):
    """observe(pr, i): optional callback run between edits (C19)"""
    h = Handles(pr)
    exps = []
    applied = []
    for i, e in enumerate(prog):
        ok, ex = apply(h, e)
        if ok:
            exps += ex
            applied.append(e)
        if observe:
            observe(pr, i)
    return applied, exps
