"""spec_tie.py — ties the run-time oracle harness/spec.py to the formal MCNP line/card rules coq/Spec/Cards.v.

Almost every check of the framework judges MontePy's inputs and outputs with harness/spec.py (an independent Python
reading of the MCNP manual).  coq/Spec/Cards.v states the same rules S1-S9 (DESIGN.md 3.1) as an executable Gallina
specification, and coq/Properties/C01Spec.v proves that MontePy's modelled line reader (coq/Model/Lines.v) cuts every
well-formed file into exactly the cards that specification prescribes (C01_split_agrees, no bound on the file).
This module closes the remaining gap by correspondence, on every run:

  (a) obligations: Properties/C01Spec.v and Properties/SpecSem.v are built and audited (Print Assumptions on every
      theorem);
  (b) the extracted Spec.Cards (wire entry run_Cards, coq/Model/SpecWire.v) and spec.py are run on the same generated
      files (gen.gen_problem rendered by gen.render with plain / wild layouts + lay_C11.relayout, both widths; a soup
      of edge-case lines; the committed corpus corpus/Spec/*.json) and compared: physical lines, message block, title,
      number of blocks, per card its words and its comment texts; S8 tokens and S9 numbers token by token;
      S11: Spec/Geometry.v (read_geometry, same_regionb) against spec.parse_geometry / spec.geom_equal on the cell
      geometries of the generated files, grammar-directed token lists, re-spellings and a token soup; S10:
      Spec/Shortcuts.v (expand) against spec.expand_shortcuts on the data / surface cards of the generated files and
      generated lists (logarithmic interpolates are symbolic in Coq and compared with spec.py's floats);
  (c) on the generated files that satisfy the theorem's well-formedness predicate (wf_file, evaluated by the extracted
      code) the real MontePy line reader (read_input_syntax) is run too and must give the title and the
      (block, words) list of Spec.Cards, and the (block, comment text) list of its stored lines must be that of the
      cards: instance checks of C01_split_agrees and C01_comments_agree on the real code;
    (c'') the open known findings of findings/Spec.entries.json (property C01: the four deviations of the real reader from
      the rules, Coq witnesses C01_split_deviations) are appended to ctx.findings, each replayed on the real reader
      (_reproduced) so that ctx.finish prints its KNOWN-FINDING line; generated files outside the predicate on which
      the real reader and the rules differ are attributed through the trigger predicates of harness/findings_Spec.py;
  (e) C01_roundtrip (Properties/C01Roundtrip.v) on the real code: montepy.read_input + write_to_file on generated files
      within its side conditions; the file and what was written are both read by the extracted rules and compared as
      denotations; a changed title is a failure (or the known finding F-C01-spec-title-last-column), differences caused
      by the object layer (outside the theorem's model) are classified and counted;
  (f) '$' comments whose text ends in " &" (and holds other '&') on the last line of a surface / data card followed by a
      further card, added to plain renderings that the real code round-trips: the real read -> write of the decorated
      file must succeed and keep cards and tokens per block (read by the extracted rules); a failure is reported through
      ctx.fail as a concrete failing input of C01;
  (d) a sample of the extracted answers is re-evaluated inside Coq by vm_compute.

A mismatch is shrunk and appended to ctx.broken_obligations.  Known, reported deviations of spec.py from the rules
(corpus/Spec/deviation-*.json: inputs outside what the generators produce) are checked to still deviate in exactly the
recorded way and are only counted (none at present: the one found, a '&' without a blank before it taken for the
continuation mark, was repaired in spec.py; corpus/Spec/regression-*.json keep the two inputs).

Stand-alone:  PYTHONPATH=/repo:/verif/harness /venv/bin/python harness/spec_tie.py [--tier quick|thorough] [--seed N]
exits non-zero on any mismatch or unproved obligation.
"""
import json
import os
import random
import re
import sys
import time
import warnings
from fractions import Fraction

import vlib
import gen
import lay_C11
import mp
import spec
import findings_Spec

MODEL = "SpecWire"
PROP_FILE = "Properties/C01Spec.v"
PROP_FILES = [PROP_FILE, "Properties/SpecSem.v", "Properties/C01Roundtrip.v"]
CORPUS = os.path.join(vlib.VERIF, "corpus", "Spec")
WIDTHS = (80, 128)


def hx(b):
    if isinstance(b, str):
        b = b.encode("latin-1")
    return b.hex() or "-"


def unhx(s):
    return "" if s == "-" else bytes.fromhex(s).decode("latin-1")


def unlist(s):
    return [] if s == "-" else [unhx(x) for x in s.split(",")]


# ------------------------------------------------------------------------------ canonical forms
def parse_model_cards(ans):
    """answer of `cards w hex` -> dict(message, title, blocks=[[(words, comments)]])"""
    m, t, b = ans.split(" ")
    message = None if m == "none" else unlist(m[1:])
    title = None if t == "none" else unhx(t[1:])
    blocks = []
    for blk in b.split("|"):
        cards = []
        if blk != "-":
            for c in blk.split(";"):
                ws, cs = c.split(":")
                cards.append((unlist(ws), unlist(cs)))
        blocks.append(cards)
    return {"message": message, "title": title, "blocks": blocks}


def canon_model(ans):
    d = parse_model_cards(ans)
    return {"message": d["message"], "title": d["title"] if d["title"] is not None else "",
            "blocks": [[[list(w), list(c)] for w, c in blk] for blk in d["blocks"]]}


def canon_spec_py(text, w):
    r = spec.split_file(text, w)
    return {"message": r["message"], "title": r["title"],
            "blocks": [[[c.text.split(" "), list(c.comments)] for c in blk] for blk in r["blocks"]]}


def norm_words(d):
    """words of a card: spec.py keeps the data parts of the lines; the words are their blank-separated runs"""
    return {"message": d["message"], "title": d["title"],
            "blocks": [[[[x for x in ws if x != ""], cs] for ws, cs in blk] for blk in d["blocks"]]}


def compare_file(text, w, ans_cards, ans_lines):
    """-> None | short description of the first difference between spec.py and Spec.Cards"""
    try:
        pl = spec.physical_lines(text, w)
        a = norm_words(canon_spec_py(text, w))
    except Exception as e:                                   # spec.py must be total on the generated alphabet
        return "spec.py raised " + type(e).__name__
    if pl != unlist(ans_lines):
        ml = unlist(ans_lines)
        i = next((i for i, (x, y) in enumerate(zip(pl, ml)) if x != y), min(len(pl), len(ml)))
        return "physical line %d: spec.py %r / Spec.Cards %r" % (i, pl[i:i + 1], ml[i:i + 1])
    b = norm_words(canon_model(ans_cards))
    for k in ("message", "title"):
        if a[k] != b[k]:
            return "%s: spec.py %r / Spec.Cards %r" % (k, a[k], b[k])
    if len(a["blocks"]) != len(b["blocks"]):
        return "number of blocks: spec.py %d / Spec.Cards %d" % (len(a["blocks"]), len(b["blocks"]))
    for bi, (x, y) in enumerate(zip(a["blocks"], b["blocks"])):
        if len(x) != len(y):
            return "block %d: spec.py %d cards / Spec.Cards %d cards" % (bi, len(x), len(y))
        for ci, (cx, cy) in enumerate(zip(x, y)):
            if cx[0] != cy[0]:
                return "block %d card %d words: spec.py %r / Spec.Cards %r" % (bi, ci, cx[0], cy[0])
            if cx[1] != cy[1]:
                return "block %d card %d comments: spec.py %r / Spec.Cards %r" % (bi, ci, cx[1], cy[1])
    return None


# ------------------------------------------------------------------------------ the real line reader (c)
_C_LINE = re.compile(r"^ {0,4}[cC]( |$)")


def real_view(data, w):
    """montepy's read_input_syntax on a file with these bytes -> (title, [(block, words)], error class)"""
    from montepy.input_parser import input_syntax_reader as R
    from montepy.input_parser.input_file import MCNP_InputFile
    p = os.path.join(mp.tmpdir(), "spec_tie.i")
    with open(p, "wb") as fh:
        fh.write(data)
    title = None
    cards = []
    comments = []          # [block, comment text] of the stored lines, in order (C01_comments_agree's left-hand side)
    err = None
    with warnings.catch_warnings():
        warnings.simplefilter("ignore")
        try:
            for x in R.read_input_syntax(MCNP_InputFile(p), lay_C11.VERS[w]):
                if x is None:
                    continue
                n = type(x).__name__
                if n == "Message":
                    continue
                if n == "Title":
                    title = x.title
                    continue
                ws = []
                for l in x.input_lines:
                    if l.strip(" ") == "":
                        continue
                    if _C_LINE.match(l):
                        comments.append([x.block_type.value, re.sub(r"^ {0,4}[cC]", "", l).strip(" ")])
                        continue
                    d = l.split("$")[0]
                    if "$" in l:
                        comments.append([x.block_type.value, l[l.index("$") + 1:].strip(" ")])
                    ws += [t for t in d.split(" ") if t and t != "&"]
                cards.append([x.block_type.value, ws])
        except Exception as e:
            err = type(e).__name__
    real_view.comments = comments
    return title, cards, err


def model_comments(ans_cards):
    """[block, comment text] of every card of Spec.Cards in file order (C01_comments_agree's right-hand side)"""
    d = parse_model_cards(ans_cards)
    return [[bi, c] for bi, blk in enumerate(d["blocks"]) for _, cs in blk for c in cs]


def model_view(ans_cards):
    d = parse_model_cards(ans_cards)
    title = None if d["title"] is None else d["title"].rstrip(" ")
    cards = [[bi, [x for x in ws if x != ""]] for bi, blk in enumerate(d["blocks"]) for ws, _ in blk]
    return title, cards, None


# ------------------------------------------------------------------------------ generators
SOUP = ["1", "0", "-1", "2", "imp:n=1", "px", "c", "C", "c ", " &", "  &", "$", "$ x &", " $ y", "\t", "  ", "     ",
        "      ", "cz", "fill=a", "\x80x", "\xe9", "MESSAGE:", "message: a", "mode n", " ", "", "c\t", "\tc x", "    c",
        "     c", "     cz 5", "      c x", "vol", "=", "(", ")", ":", "1.5e3", "u=2", "    C", "   c &", " & $ z",
        "#", "#2", "c$", "C &", "$$", "&", "& &", " & ", "x", "x&", "-1&", "&x"]


def soup_text(rng):
    n = rng.randint(0, 14)
    out = []
    if rng.random() < 0.25:
        out.append(rng.choice(["message: outp=x", "MESSAGE:", "Message: a b", "messag: no"]))
        if rng.random() < 0.5:
            out.append(rng.choice(["  datapath=/y", "more"]))
        if rng.random() < 0.8:
            out.append(rng.choice(["", " ", "\t"]))
    for _ in range(n):
        r = rng.random()
        if r < 0.2:
            l = rng.choice(["", " ", "\t", "    ", "  \t ", "      "])
        else:
            l = "".join(rng.choice(SOUP) + rng.choice([" ", "", " ", "  "]) for _ in range(rng.randint(1, 6)))
            if rng.random() < 0.1:
                l = l + " " * rng.choice([60, 70, 76, 120]) + rng.choice(["x", "&", " &", "$ &", ""])
            if rng.random() < 0.08:
                l = l + "y" * rng.choice([70, 75, 78, 79, 80, 120, 125, 127, 128, 130])
            if rng.random() < 0.3:
                l = l.rstrip()
        out.append(l)
    eol = rng.choice(["\n", "\n", "\r\n"])
    text = eol.join(out)
    if out and rng.random() < 0.85:
        text += eol
    return text


def damage(rng, text, w):
    """line-level damage of a rendered problem (kept inside the alphabet the rules are defined on)"""
    eol = "\r\n" if "\r\n" in text else "\n"
    lines = text.replace("\r\n", "\n").split("\n")
    for _ in range(rng.choice([1, 2, 4])):
        if not lines:
            break
        i = rng.randrange(len(lines))
        r = rng.random()
        l = lines[i]
        if r < 0.12:
            lines[i] = l + " " * max(0, w - rng.choice([0, 1, 2]) - len(l.expandtabs(8)))
        elif r < 0.24:
            pad = max(0, w - rng.choice([0, 1, 2, 3]) - len(l.expandtabs(8)) - 2)
            lines[i] = l + " " * pad + " &"
        elif r < 0.36:
            lines.insert(i, rng.choice(["c", "C", "    c", "     c", "      c late", "c\tx", " \tc x", "   c &", "c $ &",
                                        "c   text  ", "    C text"]))
        elif r < 0.46:
            lines[i] = l.replace(" ", "\t", rng.choice([1, 2, 9]))
        elif r < 0.56:
            lines[i] = l + rng.choice(["\x80", " $ tail &", " &  ", " & $ t", " $", "$x", "\xff\xfe"])
        elif r < 0.66:
            lines.insert(i, rng.choice(["", "   ", "\t"]))
        elif r < 0.74:
            lines[i] = rng.choice(["#", " #", "    #", "     #"]) + l
        elif r < 0.84:
            lines[i] = l + "y" * rng.choice([w - 5, w, w + 1])
        elif r < 0.92:
            lines[i] = " " * rng.choice([1, 4, 5, 6]) + l
        else:
            del lines[i]
    return eol.join(lines)


def gen_file(rng):
    """-> (text, width, kind)"""
    w = rng.choice(WIDTHS)
    r = rng.random()
    if r < 0.3:
        return soup_text(rng), w, "soup"
    P = gen.gen_problem(rng, dict(max_cells=rng.choice([1, 2, 4, 6])))
    if r < 0.45:
        return gen.render(rng, P, dict(gen.PLAIN, width=w - 3)), w, "plain"
    L = gen.layout_opts(rng, wild=True, width=w - 1)
    text = gen.render(rng, P, L)
    text, _ = lay_C11.relayout(rng, text, allow=lay_C11.FEATURES, width=w)
    if r < 0.8:
        return text, w, "wild"
    return damage(rng, text, w), w, "damaged"




def in_scope(text, w):
    """files on which spec.py and Spec.Cards are both meant to follow DESIGN 3.1 literally"""
    if re.search(r"[\x00-\x08\x0b-\x0c\x0e-\x1f]", text):
        return False                       # control characters: not in the rules
    if re.search(r"\r(?!\n)", text):
        return False                       # CR that is not part of CR LF
    return True


NUM_SOUP = ["1", "-1", "+1", "1.", ".5", "-.5", "1.5", "1.5e3", "1.5E+3", "1.5d-3", "1.5D3", "1.5+3", "1.5-3", "1e5",
            "1e", "e5", ".", "+", "-", "", "1.5e", "1.5e+", "1..5", "1.5.2", "1e5.2", "1+", "--1", "+-1", "1 5", "0",
            "00012", "12e0012", "1.50", "0.0", "-0", "1.5+3x", "x1", "1x", "1,5", "1.5e-0", "3J", "2R", "1M", ".e5",
            "5.e5", "+.5e+1", "1d", "1D+2", "1-2", "1.-2", "123456789012345678901234567890", "1e-30", "1.5e30"]


def gen_number(rng):
    r = rng.random()
    if r < 0.35:
        return rng.choice(NUM_SOUP)
    if r < 0.8:
        return gen.fmt_real(rng)
    return "".join(rng.choice("0123456789.+-eEdD") for _ in range(rng.randint(1, 8)))


# ------------------------------------------------------------------------------ S11 geometry, S10 shortcuts
GEOM_SOUP = ["1", "-2", "+3", "12", "0", "-0", "(", ")", ":", "#", "(", ")", ":", "#", "7", "-7", "X", "1.5", "+", "#5"]


def sexp(ast):
    k = ast[0]
    if k == "leaf":
        return "(s%s %d)" % ("+" if ast[1] > 0 else "-", ast[2])
    if k == "cell":
        return "(c %d)" % ast[1]
    if k == "not":
        return "(not %s)" % sexp(ast[1])
    return "(%s %s %s)" % (k, sexp(ast[1]), sexp(ast[2]))


def spec_geometry(toks):
    try:
        return sexp(spec.parse_geometry(list(toks)))
    except spec.GeomError:
        return "none"
    except RecursionError:
        return "none"


def gen_geom_tokens(rng, depth=0):
    """a geometry as token list: mostly valid (grammar-directed), sometimes soup"""
    if depth == 0 and rng.random() < 0.25:
        return [rng.choice(GEOM_SOUP) for _ in range(rng.randint(0, 9))]
    r = rng.random()
    if depth >= 3 or r < 0.35:
        n = rng.choice([1, 2, 3, 4, 5, 6, 10, 23])
        return [rng.choice(["", "-", "-", "+"]) + str(n)]
    if r < 0.45:
        return ["#", str(rng.choice([1, 2, 3, 9]))]
    if r < 0.55:
        return ["#", "("] + gen_geom_tokens(rng, depth + 1) + [")"]
    if r < 0.7:
        return ["("] + gen_geom_tokens(rng, depth + 1) + [")"]
    if r < 0.87:
        return gen_geom_tokens(rng, depth + 1) + gen_geom_tokens(rng, depth + 1)
    return gen_geom_tokens(rng, depth + 1) + [":"] + gen_geom_tokens(rng, depth + 1)


def rewrite_geom(rng, toks):
    """another spelling of (mostly) the same region, or a slightly different one"""
    r = rng.random()
    if r < 0.3:
        return ["("] + toks + [")"]
    if r < 0.5:
        return ["#", "(", "#", "("] + toks + [")", ")"]
    if r < 0.65:
        return ["("] + toks + [")", "("] + toks + [")"]
    if r < 0.8:
        return toks + [":", "("] + toks + [")"]
    if r < 0.9:
        return [t if not re.match(r"^[+-]?\d+$", t) or rng.random() < 0.7 else
                ("-" + t.lstrip("+-") if not t.startswith("-") else t.lstrip("-")) for t in toks]
    if rng.random() < 0.5:
        return toks + [str(rng.choice([1, 2, 3]))]                      # a subset of the region
    return ["("] + toks + [")", ":", str(rng.choice([1, 2, 3]))]        # a superset


SC_SOUP = ["1", "2.5", "-3", "1E2", "0", "1.5+3", "2R", "R", "0R", "3I", "I", "0I", "2ILOG", "ILOG", "2LOG", "J", "3J",
           "0J", "2M", "1.5M", "-2M", "1E1M", "M", "X", "IMP:N", "N", "2RR", "R2", "1J2", "LOG", "3ILOG", "10", "100",
           "0.001", "-1", "4", "5R", "1I", "2I", ".5M", "+2M", "(", ")"]


def gen_shortcut_tokens(rng):
    n = rng.randint(0, 9)
    if rng.random() < 0.6:       # mostly well-formed lists
        out = [rng.choice(["1", "2.5", "10", "0.001", "4", "1E2"])]
        for _ in range(n):
            k = rng.random()
            if k < 0.35:
                out.append(rng.choice(["1", "2.5", "-3", "10", "100", "1.5+3", "7"]))
            elif k < 0.5:
                out.append(rng.choice(["R", "2R", "5R"]))
            elif k < 0.65:
                out += [rng.choice(["I", "2I", "3I"]), rng.choice(["20", "50.5", "1E3"])]
            elif k < 0.75:
                out += [rng.choice(["ILOG", "2ILOG", "3LOG"]), rng.choice(["20", "50.5", "1E3"])]
            elif k < 0.87:
                out.append(rng.choice(["2M", "1.5M", "-2M", ".5M"]))
            else:
                out += [rng.choice(["J", "2J"]), rng.choice(["3", "8"])]
        return out
    return [rng.choice(SC_SOUP) for _ in range(n)]


def spec_shortcuts(toks):
    """spec.expand_shortcuts -> list of ('n', Fraction) | ('j',) | ('w', str) | ('bad',), or 'raises'"""
    try:
        out = spec.expand_shortcuts(list(toks))
    except Exception as e:
        return "raises " + type(e).__name__
    res = []
    for v in out:
        if isinstance(v, Fraction):
            res.append(("n", v))
        elif v == "J":
            res.append(("j",))
        elif isinstance(v, str):
            res.append(("w", v))
        else:
            res.append(("bad",))
    return res


def parse_entries(ans):
    if ans == "none":
        return None
    out = []
    for e in ([] if ans == "-" else ans.split(",")):
        if e[0] == "n":
            a, b = e[1:].split("/")
            out.append(("n", Fraction(int(a), int(b))))
        elif e[0] == "j":
            out.append(("j",))
        elif e[0] == "w":
            out.append(("w", unhx(e[1:])))
        else:
            a, b, n, j = e[1:].split(":")
            fa = Fraction(*map(int, a.split("/")))
            fb = Fraction(*map(int, b.split("/")))
            out.append(("l", fa, fb, int(n), int(j)))
    return out


def entries_agree(model, py):
    """Spec.Shortcuts entries against spec.py's values; a LogStep is compared with spec.py's float value"""
    import math
    if not isinstance(py, list) or len(model) != len(py):
        return False
    for m, p in zip(model, py):
        if m[0] == "l":
            _, a, b, n, j = m
            want = 10 ** (math.log10(float(a)) + (math.log10(float(b)) - math.log10(float(a))) * j / (n + 1))
            if p[0] != "n" or not spec.close(p[1], Fraction(want), 1e-12):
                return False
        elif m != p:
            return False
    return True


# ------------------------------------------------------------------------------ shrinking
def shrink_text(text, failing):
    lines = text.split("\n")
    i = 0
    while i < len(lines):
        cand = lines[:i] + lines[i + 1:]
        if failing("\n".join(cand)):
            lines = cand
        else:
            i += 1
    cur = "\n".join(lines)
    i = 0
    while i < len(cur) and len(cur) < 600:
        cand = cur[:i] + cur[i + 1:]
        if failing(cand):
            cur = cand
        else:
            i += 1
    return cur


def ask(reqs):
    return vlib.model_ask(MODEL, reqs)


def file_mismatch(text, w):
    a = ask(["cards %d %s" % (w, hx(text)), "lines %d %s" % (w, hx(text))])
    return compare_file(text, w, a[0], a[1])


def theorem_mismatch(text, w):
    a = ask(["wf %d %s" % (w, hx(text)), "cards %d %s" % (w, hx(text))])
    if a[0] != "1":
        return None
    rv = real_view(text.encode("latin-1"), w)
    mv = model_view(a[1])
    if (rv[0], rv[1], rv[2]) != (mv[0], mv[1], mv[2]):
        return "real reader %r / Spec.Cards %r" % (rv, mv)
    if real_view.comments != model_comments(a[1]):
        return "comment texts: real reader %r / Spec.Cards %r" % (real_view.comments, model_comments(a[1]))
    return None


# ------------------------------------------------------------------------------ witnesses of the _refuted theorems
# (file, width, what the real reader gives, what the rules give) exactly as stated in Properties/C01Spec.v
# (C01_split_deviations, C01_split_clauses_needed): replayed on the real code on every run
WITNESSES = [
    ("amp_dollar", "t\n1 0 -1 & $ x\nimp:n=1\n", 80,
     ("t", [[0, ["1", "0", "-1"]], [0, ["imp:n=1"]]], None), ("t", [[0, ["1", "0", "-1", "imp:n=1"]]], None)),
    ("comment_block", "t\n1 0 -1\n\n1 so 1\n\nc only\n\n", 80,
     ("t", [[0, ["1", "0", "-1"]], [1, ["1", "so", "1"]], [2, []]], None),
     ("t", [[0, ["1", "0", "-1"]], [1, ["1", "so", "1"]]], None)),
    ("beyond_limit", "t\n1 0 -1\n" + " " * 80 + "x\n1 so 1\n", 80,
     ("t", [[0, ["1", "0", "-1"]], [0, ["1", "so", "1"]]], None), ("t", [[0, ["1", "0", "-1"]], [1, ["1", "so", "1"]]], None)),
    ("unterminated", "t\n1 0 -1\n  c", 80,
     ("t", [[0, ["1", "0", "-1"]], [0, []]], None), ("t", [[0, ["1", "0", "-1"]]], None)),
    ("late_c", "t\n1 0 -1\n\n     cz 5\n1 so 1\n", 80,
     ("t", [[0, ["1", "0", "-1"]], [1, ["cz", "5", "1", "so", "1"]]], None),
     ("t", [[0, ["1", "0", "-1"]], [1, ["cz", "5"]], [1, ["1", "so", "1"]]], None)),
    ("lone_amp", "t\n1 0 & -1\n", 80,
     ("t", [[0, ["1", "0", "-1"]]], None), ("t", [[0, ["1", "0", "&", "-1"]]], None)),
    ("title_tab", "t\ta\n1 0 -1\n", 80,
     ("t\ta", [[0, ["1", "0", "-1"]]], None), ("t       a", [[0, ["1", "0", "-1"]]], None)),
    ("vertical", "t\n# 1 2\n  0 0\n", 80,
     ("t", [], "UnsupportedFeature"), ("t", [[0, ["#", "1", "2"]], [0, ["0", "0"]]], None)),
]


# ------------------------------------------------------------------------------ corpus
def load_corpus():
    out = []
    if os.path.isdir(CORPUS):
        for f in sorted(os.listdir(CORPUS)):
            if f.endswith(".json"):
                with open(os.path.join(CORPUS, f)) as fh:
                    c = json.load(fh)
                c["_file"] = f
                out.append(c)
    return out


# ------------------------------------------------------------------------------ known findings (property C01)
ENTRIES = os.path.join(vlib.VERIF, "findings", "Spec.entries.json")


def load_entries():
    try:
        with open(ENTRIES) as fh:
            return [dict(e) for e in json.load(fh)]
    except FileNotFoundError:
        return []


def _as_view(v):
    return (v[0], [list(x) for x in v[1]], v[2])


def denotation(ans_cards):
    """what a problem denotes (Proofs/RoundtripProofs.v: denotation) from a `cards` answer: the title without
    trailing blanks, per block the cards as (tokens by rule S8, comment texts); always three blocks"""
    d = parse_model_cards(ans_cards)
    blocks = [[[[t for wd in ws for t in wd.replace("=", " ").upper().split(" ") if t], list(cs)] for ws, cs in blk]
              for blk in d["blocks"]]
    blocks = (blocks + [[], [], []])[:3]
    return (None if d["title"] is None else d["title"].rstrip(" ")), blocks


def real_roundtrip(text, w):
    """montepy.read_input + write_to_file on the text -> the written text, or ('raises', class name)"""
    try:
        _, out = mp.roundtrip(text, version=lay_C11.VERS[w])
        return out
    except Exception as e:
        return ("raises", type(e).__name__)


def roundtrip_titles(text, w):
    """(title by the rules of the file, title by the rules of what the real code writes for it)"""
    out = real_roundtrip(text, w)
    if not isinstance(out, str):
        return None
    a = ask(["cards %d %s" % (w, hx(text)), "cards %d %s" % (w, hx(out))])
    return denotation(a[0])[0], denotation(a[1])[0]


def replay_finding(entry):
    """replay the committed witness of a finding on the real reader and on the extracted rules:
    True when both read it as recorded (and so differ)"""
    with open(os.path.join(vlib.VERIF, entry["replay"])) as fh:
        case = json.load(fh)["case"]
    text, w = case["text"], case["width"]
    if case.get("kind") == findings_Spec.KIND_RT:
        t = roundtrip_titles(text, w)
        return t is not None and t[0] == case["title_read"] and t[1] == case["title_written"] and t[0] != t[1]
    rv = real_view(text.encode("latin-1"), w)
    mv = model_view(ask(["cards %d %s" % (w, hx(text))])[0])
    return rv == _as_view(case["real_reader"]) and mv == _as_view(case["rules"]) and rv != mv


def register_findings(ctx):
    """append the open entries of findings/Spec.entries.json to ctx.findings (vlib only loads the files of the running
    property) and set _reproduced on each from its replay; ctx.finish prints the KNOWN-FINDING lines"""
    out = []
    have = {f.get("id") for f in getattr(ctx, "findings", [])}
    for e in load_entries():
        if e.get("status") != "open":
            continue
        try:
            e["_reproduced"] = bool(replay_finding(e))
        except Exception as ex:                              # a replay that cannot run does not reproduce
            e["_reproduced"] = False
            e["_replay_error"] = type(ex).__name__
        if e["id"] not in have and hasattr(ctx, "findings"):
            ctx.findings.append(e)
        out.append(e)
    return out


def attribute(case, entries):
    """ids of the open findings whose trigger predicate (harness/findings_Spec.py) holds for the case"""
    hit = []
    for e in entries:
        pred = getattr(findings_Spec, e["trigger"], None)
        try:
            if pred is not None and pred(case, e.get("params", {})):
                hit.append(e["id"])
        except Exception:
            continue
    return hit


def replay(ctx, path):
    """replay of a findings/F-C01-spec-*.json file (or of a replay written by this module): prints what the real reader
    and the rules read; returns 0 when they agree, 1 when they differ"""
    with open(path) as fh:
        case = json.load(fh).get("case")
    text, w = case["text"], case["width"]
    rv = real_view(text.encode("latin-1"), w)
    mv = model_view(ask(["cards %d %s" % (w, hx(text))])[0])
    print("file        :", repr(text))
    print("real reader :", rv)
    print("rules       :", mv)
    print("attributed  :", attribute(dict(case, kind=findings_Spec.KIND), load_entries()))
    return 0 if rv == mv else 1


# ------------------------------------------------------------------------------ run
def run(ctx):
    t0 = time.time()
    thorough = ctx.tier == "thorough"
    n_files = 6000 if thorough else 500
    n_real = 4000 if thorough else 400
    n_numbers = 20000 if thorough else 2500
    res = {"files": 0, "files_in_scope": 0, "files_out_of_scope": 0, "kinds": {}, "widths": {}, "wf_files": 0,
           "wf_by_kind": {}, "real_reader_checked": 0, "numbers": 0, "numbers_accepted": 0, "token_cards": 0,
           "cards_compared": 0, "comments_compared": 0, "mismatches": 0, "corpus": 0, "known_spec_py_deviations": 0,
           "vm_crosschecked": 0}

    def broken(what, detail):
        res["mismatches"] += 1
        if len([b for b in ctx.broken_obligations if str(b.get("obligation", "")).startswith("spec_tie")]) < 5:
            ctx.broken_obligations.append({"obligation": "spec_tie: " + what, "detail": detail})

    # (a) obligations -----------------------------------------------------------------------------
    old_pa = ctx.cov.get("print_assumptions")
    old_cmd = ctx.cov.get("checker_cmd", "")
    if os.environ.get("SPEC_TIE_NOPROVE") == "1":          # development only: the run then counts as failed
        proved = False
        pass
    else:
        proved = True
        pas = []
        for pf in PROP_FILES:
            proved = ctx.prove(pf, extra_targets=("Model/SpecWire.vo",)) and proved
            pas += list(ctx.cov.get("print_assumptions") or [])
            ctx.cov["print_assumptions"] = []
        ctx.cov["print_assumptions"] = pas
    res["obligations_proved"] = bool(proved)
    res["print_assumptions"] = list(ctx.cov.get("print_assumptions") or [])
    if old_pa is not None:
        ctx.cov["print_assumptions"] = list(old_pa) + res["print_assumptions"]
    if old_cmd:
        ctx.cov["checker_cmd"] = old_cmd + "  ||  " + ctx.cov.get("checker_cmd", "")
    if not os.path.exists(os.path.join(vlib.COQ, "Model", MODEL + ".vo")):
        broken("model not built", "coq/Model/SpecWire.vo missing")
        res["wall_s"] = round(time.time() - t0, 2)
        return res

    # (b) files -------------------------------------------------------------------------------------
    cases = []          # (text, w, kind)
    for c in load_corpus():
        res["corpus"] += 1
        text = unhx(c["hex"]) if "hex" in c else c["text"]
        cases.append((text, c.get("width", 128), "corpus:" + c["_file"], c))
    i = 0
    while len(cases) < n_files + res["corpus"]:
        rng = random.Random(f"{ctx.seed}:Spec:{i}")
        i += 1
        text, w, kind = gen_file(rng)
        try:
            text.encode("latin-1")
        except UnicodeEncodeError:
            continue
        cases.append((text, w, kind, None))
    reqs = []
    for text, w, kind, _ in cases:
        h = hx(text)
        reqs += ["cards %d %s" % (w, h), "lines %d %s" % (w, h), "wf %d %s" % (w, h)]
    answers = ask(reqs)
    wf_cases = []
    for k, (text, w, kind, c) in enumerate(cases):
        a_cards, a_lines, a_wf = answers[3 * k: 3 * k + 3]
        res["files"] += 1
        kk = kind.split(":")[0]
        res["kinds"][kk] = res["kinds"].get(kk, 0) + 1
        res["widths"][str(w)] = res["widths"].get(str(w), 0) + 1
        if hasattr(ctx, "count_case"):
            ctx.count_case(("spec_tie", w, text), nontrivial=len(text) > 20)
        if a_wf == "1":
            res["wf_files"] += 1
            res["wf_by_kind"][kk] = res["wf_by_kind"].get(kk, 0) + 1
            wf_cases.append((text, w, a_cards, kind))
        if c is not None and c.get("spec_py_deviates"):
            # a reported deviation of spec.py: Spec.Cards must give the recorded (rule-conforming) result,
            # spec.py is expected to differ; when it stops differing the entry is stale (still fine)
            got = canon_model(a_cards)
            if "expect" in c and norm_words(got) != norm_words(c["expect"]):
                broken("corpus " + c["_file"], {"expected": c["expect"], "Spec.Cards": got})
            if compare_file(text, w, a_cards, a_lines) is not None:
                res["known_spec_py_deviations"] += 1
            continue
        if c is None and not in_scope(text, w):
            res["files_out_of_scope"] += 1
            continue
        res["files_in_scope"] += 1
        if c is not None and "expect" in c:
            got = canon_model(a_cards)
            if norm_words(got) != norm_words(c["expect"]):
                broken("corpus " + c["_file"], {"expected": c["expect"], "Spec.Cards": got})
        d = compare_file(text, w, a_cards, a_lines)
        if d is None:
            m = parse_model_cards(a_cards)
            res["cards_compared"] += sum(len(b) for b in m["blocks"])
            res["comments_compared"] += sum(len(cs) for b in m["blocks"] for _, cs in b)
            continue
        small = shrink_text(text, lambda t: in_scope(t, w) and file_mismatch(t, w) is not None)
        broken("spec.py and Spec.Cards read a file differently",
               {"kind": kind, "width": w, "difference": file_mismatch(small, w) or d, "file_hex": hx(small),
                "file": small})
    if hasattr(ctx, "cov"):
        ctx.cov["programs"] = ctx.cov.get("programs", 0) + res["files"]

    # (b') tokens of the cards of a sample of files, numbers --------------------------------------------
    treqs, texp = [], []
    for text, w, kind, c in cases[:: max(1, len(cases) // (400 if thorough else 60))]:
        if not in_scope(text, w):
            continue
        for blk in spec.split_file(text, w)["blocks"]:
            for card in blk:
                ws = [x for x in card.text.split(" ") if x]
                if not ws:
                    continue
                lst = ",".join(hx(x) for x in ws)
                treqs += ["tokens " + lst, "gtokens " + lst]
                texp += [spec.tokens(card.text), spec.tokens(card.text, cell_geometry=True)]
    tans = ask(treqs)
    for q, a, e in zip(treqs, tans, texp):
        res["token_cards"] += 1
        if unlist(a) != e:
            broken("S8 tokens", {"request": q, "spec.py": e, "Spec.Cards": unlist(a)})
    ntoks = []
    for j in range(n_numbers):
        ntoks.append(gen_number(random.Random(f"{ctx.seed}:SpecNum:{j}")))
    # exponents of more than three digits are left out: 10^e is computed exactly on both sides
    ntoks = [t for t in dict.fromkeys(ntoks) if t and " " not in t and not re.search(r"[-+eEdD]0*[1-9]\d{3}", t)]
    nreqs = ["number " + hx(t) for t in ntoks]
    nans = ask(nreqs)
    for t, a in zip(ntoks, nans):
        res["numbers"] += 1
        e = spec.read_number(t)
        if a == "none":
            got = None
        else:
            n, d = a.split("/")
            got = Fraction(int(n), int(d))
            res["numbers_accepted"] += 1
        if got != e:
            broken("S9 number", {"token": t, "spec.py": str(e), "Spec.Cards": str(got)})

    # (b'') S11 geometry and S10 shortcuts: Spec/Geometry.v, Spec/Shortcuts.v against spec.parse_geometry,
    # spec.geom_equal, spec.expand_shortcuts -----------------------------------------------------------------------
    n_geom = 6000 if thorough else 700
    gl = []
    for text, w, kind, c in cases[:: max(1, len(cases) // (300 if thorough else 40))]:
        for card in spec.split_file(text, w)["blocks"][0]:
            try:
                gt = spec.parse_cell(card)["geom_tokens"]
            except Exception:
                continue
            if gt:
                gl.append(gt)
    for j in range(n_geom):
        gl.append(gen_geom_tokens(random.Random(f"{ctx.seed}:SpecGeom:{j}")))
    gl = [g for g in gl if all(t and " " not in t for t in g)]
    greqs = ["geometry " + (",".join(hx(t) for t in g) or "-") for g in gl]
    gans = ask(greqs)
    res["geometries"] = 0
    res["geometries_accepted"] = 0
    pairs = []
    for j, (g, a) in enumerate(zip(gl, gans)):
        res["geometries"] += 1
        e = spec_geometry(g)
        if a != "none":
            res["geometries_accepted"] += 1
            if len(set(t.lstrip("+-") for t in g if re.match(r"^[+-]?\d+$", t))) <= 7:
                pairs.append((g, rewrite_geom(random.Random(f"{ctx.seed}:SpecGeomRw:{j}"), g)))
        if a != e:
            broken("S11 geometry", {"tokens": g, "spec.py": e, "Spec.Geometry": a})
    pairs = pairs[: (2500 if thorough else 300)]
    sreqs = ["sameregion %s %s" % (",".join(hx(t) for t in a), ",".join(hx(t) for t in b)) for a, b in pairs]
    sans = ask(sreqs)
    res["region_pairs"] = 0
    res["region_pairs_equal"] = 0
    for (a, b), ans in zip(pairs, sans):
        res["region_pairs"] += 1
        try:
            e = "1" if spec.geom_equal(spec.parse_geometry(list(a)), spec.parse_geometry(list(b))) else "0"
        except spec.GeomError:
            e = "none"
        res["region_pairs_equal"] += ans == "1"
        if ans != e:
            broken("S11 same region", {"a": a, "b": b, "spec.py": e, "Spec.Geometry": ans})
    n_sc = 8000 if thorough else 900
    sl = []
    for text, w, kind, c in cases[:: max(1, len(cases) // (300 if thorough else 40))]:
        blocks = spec.split_file(text, w)["blocks"]
        for blk in blocks[1:]:
            for card in blk:
                toks = []
                for t in spec.tokens(card.text):
                    toks += [x for x in re.split(r"([()])", t) if x]
                if toks:
                    sl.append(toks[1:])
    for j in range(n_sc):
        sl.append(gen_shortcut_tokens(random.Random(f"{ctx.seed}:SpecSc:{j}")))
    sl = [t for t in sl if all(x and " " not in x for x in t)
          and not any(re.search(r"[-+eEdD]0*[1-9]\d{3}", x) for x in t)]
    screqs = ["shortcuts " + (",".join(hx(t) for t in g) or "-") for g in sl]
    scans = ask(screqs)
    res["shortcut_lists"] = 0
    res["shortcut_lists_expanded"] = 0
    res["shortcut_lists_without_meaning"] = 0
    res["shortcut_lists_without_meaning_flagged_by_spec_py"] = 0
    for toks, a in zip(sl, scans):
        res["shortcut_lists"] += 1
        m = parse_entries(a)
        pyv = spec_shortcuts(toks)
        if m is None:
            # the manual gives the list no meaning (Spec.Shortcuts: None); spec.py either flags it or reads something
            res["shortcut_lists_without_meaning"] += 1
            if not isinstance(pyv, list) or any(x == ("bad",) for x in pyv):
                res["shortcut_lists_without_meaning_flagged_by_spec_py"] += 1
            continue
        res["shortcut_lists_expanded"] += 1
        if not entries_agree(m, pyv):
            broken("S10 shortcuts", {"tokens": toks, "spec.py": str(pyv)[:400], "Spec.Shortcuts": a[:400]})

    # (c) the real reader on well-formed files -------------------------------------------------------------
    for text, w, a_cards, kind in wf_cases[:n_real]:
        res["real_reader_checked"] += 1
        rv = real_view(text.encode("latin-1"), w)
        mv = model_view(a_cards)
        res["real_comments_compared"] = res.get("real_comments_compared", 0) + len(real_view.comments)
        if rv != mv or real_view.comments != model_comments(a_cards):
            small = shrink_text(text, lambda t: theorem_mismatch(t, w) is not None)
            broken("C01_split_agrees instance: the real line reader and Spec.Cards differ on a well-formed file",
                   {"kind": kind, "width": w, "difference": theorem_mismatch(small, w), "file_hex": hx(small),
                    "file": small})

    # (c') the witnesses of the _refuted / clause theorems on the real reader and on the extracted rules --------------
    res["witnesses"] = 0
    wans = ask(["cards %d %s" % (w, hx(text)) for _, text, w, _, _ in WITNESSES] +
               ["wf %d %s" % (w, hx(text)) for _, text, w, _, _ in WITNESSES])
    for k, (name, text, w, exp_real, exp_rules) in enumerate(WITNESSES):
        rv = real_view(text.encode("latin-1"), w)
        mv = model_view(wans[k])
        if rv != exp_real or mv != exp_rules or wans[len(WITNESSES) + k] != "0":
            broken("witness %s of Properties/C01Spec.v no longer reads as stated" % name,
                   {"file": text, "real reader": rv, "stated": exp_real, "Spec.Cards": mv, "stated rules": exp_rules,
                    "wf": wans[len(WITNESSES) + k]})
        else:
            res["witnesses"] += 1

    # (c'') known findings: replayed; generated files outside the predicate on which the real reader and the rules
    # differ are attributed to them when the file with the findings' features repaired reads alike ----------------------
    entries = register_findings(ctx)
    res["findings_reproduced"] = sorted(e["id"] for e in entries if e.get("_reproduced"))
    res["findings_not_reproduced"] = sorted(e["id"] for e in entries if not e.get("_reproduced"))
    res["nonwf_checked"] = 0
    res["nonwf_differ"] = 0
    res["nonwf_differ_attributed"] = 0
    res["nonwf_differ_outside_format"] = 0
    wf_texts = {(t, w) for t, w, _, _ in wf_cases}
    nonwf = [(t, w, k, a) for (t, w, k, c), a in zip(cases, answers[0::3]) if (t, w) not in wf_texts]
    for text, w, kind, a_cards in nonwf[: (3000 if thorough else 300)]:
        res["nonwf_checked"] += 1
        try:
            data = text.encode("latin-1")
        except UnicodeEncodeError:
            continue
        rv = real_view(data, w)
        mv = model_view(a_cards)
        if rv == mv:
            continue
        res["nonwf_differ"] += 1
        case = {"kind": findings_Spec.KIND, "width": w, "text": text, "real_reader": rv, "rules": mv}
        ids = attribute(case, entries)
        if ids:
            res["nonwf_differ_attributed"] += 1
            for fid in ids:
                if hasattr(ctx, "filtered"):
                    ctx.filtered[fid] = ctx.filtered.get(fid, 0) + 1
        else:
            # the file breaks another clause of wf_file (vertical format, first data line beyond column 5, a lone
            # '&', a tab in the title, control characters, an unterminated last line ...): outside MCNP's format
            # or outside what the rules cover; counted, not judged
            res["nonwf_differ_outside_format"] += 1

    # (e) the end-to-end statement C01_roundtrip on the real code: read_input + write_to_file on generated files that
    # meet its side conditions (wf_file, no message block, title within w - 1 columns); both files are read by the
    # extracted rules.  The object layer between reading and writing is not in the theorem's model (hypothesis
    # Lossless): differences it causes are classified and counted; only a changed title is judged here (the C01
    # check's own oracle judges the rest)
    rt = {"checked": 0, "same_denotation": 0, "raises": 0, "data_card_order": 0, "cell_token_order": 0,
          "other_object_layer": 0, "title_beyond_w_minus_1": 0}
    n_rt = 1500 if thorough else 120
    cand = []
    for text, w, a_cards, kind in wf_cases:
        if kind.split(":")[0] == "soup":
            continue
        pl = spec.physical_lines(text, w)
        if not pl or pl[0].upper().startswith("MESSAGE:"):
            continue
        cand.append((text, w, a_cards, len(pl[0].rstrip(" ")) <= w - 1))
    # a few files whose title reaches the last column (the finding F-C01-spec-title-last-column)
    for j, (text, w, a_cards, fit) in enumerate(list(cand[:8])):
        lines = text.split("\n")
        tl0 = lines[0].rstrip("\r")
        if "\t" not in tl0 and len(tl0) < w:
            lines[0] = tl0 + "." * (w - len(tl0)) + ("\r" if lines[0].endswith("\r") else "")
            t2 = "\n".join(lines)
            cand.append((t2, w, ask(["cards %d %s" % (w, hx(t2))])[0], False))
    # committed round-trip cases (corpus/Spec/*.json with "roundtrip": true)
    extra = []
    for c in load_corpus():
        if c.get("roundtrip"):
            t2 = unhx(c["hex"]) if "hex" in c else c["text"]
            w2 = c.get("width", 128)
            pl2 = spec.physical_lines(t2, w2)
            extra.append((t2, w2, ask(["cards %d %s" % (w2, hx(t2))])[0], len(pl2[0].rstrip(" ")) <= w2 - 1))
    for text, w, a_cards, fit in extra + cand[:n_rt] + cand[-8:]:
        out = real_roundtrip(text, w)
        rt["checked"] += 1
        if not isinstance(out, str):
            rt["raises"] += 1
            continue
        A = denotation(a_cards)
        B = denotation(ask(["cards %d %s" % (w, hx(out))])[0])
        if A[0] != B[0]:
            case = {"kind": findings_Spec.KIND_RT, "width": w, "text": text, "title_read": A[0], "title_written": B[0]}
            ids = attribute(case, entries)
            if ids and not fit:
                rt["title_beyond_w_minus_1"] += 1
                for fid in ids:
                    if hasattr(ctx, "filtered"):
                        ctx.filtered[fid] = ctx.filtered.get(fid, 0) + 1
            else:
                broken("C01_roundtrip instance: the real round trip changes the title",
                       {"width": w, "title read": A[0], "title written": B[0], "file": text[:600]})
            continue
        if A == B:
            rt["same_denotation"] += 1
            continue
        kinds = set()
        for bi, (x, y) in enumerate(zip(A[1], B[1])):
            if x == y:
                continue
            if bi == 2 and sorted(t for c in x for t in c[0]) == sorted(t for c in y for t in c[0]) \
                    and sorted(map(str, [c[0] for c in x])) == sorted(map(str, [c[0] for c in y])):
                kinds.add("data_card_order")          # known finding F-C01-data-card-order (MT / IMP / VOL cards move)
            elif bi == 0 and len(x) == len(y) and all(sorted(c[0]) == sorted(d[0]) for c, d in zip(x, y)) \
                    and [c[1] for c in x] == [c[1] for c in y]:
                kinds.add("cell_token_order")         # the parameters of a cell card are written in MontePy's order
            else:
                kinds.add("other_object_layer")
        for k in kinds:
            rt[k] += 1
    res["roundtrip_real"] = rt

    # (f) '$' comments whose text ends in " &" (and holds other '&') on the last line of a surface / data card that is
    # followed by a further card: by S6 the '&' is comment text, the next card is a card of its own.  A plain rendering
    # that the real code reads and writes back is decorated that way; the real round trip of the decorated file must
    # succeed and, read by the extracted rules, keep the number of cards and the tokens of every block (as far as
    # the undecorated file keeps them: the object layer's own reorderings are not judged here).  A failure is a
    # concrete failing input of property C01 (ctx.fail).
    da = {"files": 0, "base_not_usable": 0, "decorated_lines": 0, "ok": 0, "failures": 0}
    n_da = 400 if thorough else 45

    def shape(ans):
        d = denotation(ans)
        return [(len(b), sorted(t for c in b for t in c[0])) for b in d[1]]

    for j in range(n_da):
        rng = random.Random(f"{ctx.seed}:SpecDollarAmp:{j}")
        w = rng.choice(WIDTHS)
        P = gen.gen_problem(rng, dict(max_cells=rng.choice([1, 2, 3])))
        text = gen.render(rng, P, dict(gen.PLAIN, width=w - 3))
        if "\r" in text:
            continue
        da["files"] += 1
        base_out = real_roundtrip(text, w)
        if not isinstance(base_out, str):
            da["base_not_usable"] += 1
            continue
        a0 = ask(["cards %d %s" % (w, hx(text)), "cards %d %s" % (w, hx(base_out)), "wf %d %s" % (w, hx(text))])
        if a0[2] != "1" or shape(a0[0]) != shape(a0[1]):
            da["base_not_usable"] += 1
            continue
        lines = text.split("\n")
        nblank = 0
        started = False
        ndec = 0
        for k in range(1, len(lines) - 1):
            l, nxt = lines[k], lines[k + 1]
            if l.strip() == "":
                nblank += 1
                continue
            if nblank not in (1, 2) or _C_LINE.match(l) or "$" in l or l.rstrip().endswith("&") or "\t" in l:
                continue
            if not nxt.strip() or nxt[:5].strip() == "" or _C_LINE.match(nxt):
                continue                     # the next line must start a further card
            if re.match(r"\s*[fs]c\d", l, re.I):
                continue                     # FCn / SCn: free text
            tail = rng.choice([" $ inner sphere, see fuel &", " $ a & b &", " $ R&D note &", " $ &", " $ x & y & z &"])
            if len(l.rstrip()) + len(tail) <= w - 1 and rng.random() < 0.6:
                lines[k] = l.rstrip() + tail
                ndec += 1
        if not ndec:
            da["base_not_usable"] += 1
            continue
        da["decorated_lines"] += ndec
        dec = "\n".join(lines)
        out = real_roundtrip(dec, w)
        why = None
        if not isinstance(out, str):
            why = "the real round trip of the decorated file raises " + out[1]
        else:
            a1 = ask(["cards %d %s" % (w, hx(dec)), "cards %d %s" % (w, hx(out)), "wf %d %s" % (w, hx(dec))])
            if a1[2] == "1" and shape(a1[0]) != shape(a1[1]):
                why = "cards per block / tokens change: read %r written %r" % (shape(a1[0]), shape(a1[1]))
        if why is None:
            da["ok"] += 1
            continue
        da["failures"] += 1

        def failing(t):
            o = real_roundtrip(t, w)
            if not isinstance(o, str):
                b = real_roundtrip(re.sub(r" \$[^\n]*&(?=\n|$)", "", t), w)
                return isinstance(b, str)
            return False
        small = dec
        if not isinstance(out, str):
            try:
                small = shrink_text(dec, failing) if len(dec) < 3000 else dec
            except Exception:
                small = dec
        case = {"kind": "roundtrip-dollar-comment-ends-amp", "width": w, "text": small, "why": why,
                "what": "a '$' comment whose text ends in ' &' on the last line of a card that is followed by a further "
                        "card: the unedited read -> write of this well-formed file fails or changes the cards",
                "case": {"kind": findings_Spec.KIND, "width": w, "text": small}}
        if hasattr(ctx, "fail"):
            ctx.fail(case)
    res["dollar_amp_roundtrip"] = da

    # (d) vm_compute cross-check -----------------------------------------------------------------------------
    allq = reqs + treqs + nreqs + greqs + sreqs + screqs
    alla = answers + tans + nans + gans + sans + scans
    short = [(q, a) for q, a in zip(allq, alla) if len(q) < 3000]
    n, bad = vlib.vm_crosscheck(MODEL, [q for q, _ in short], [a for _, a in short],
                                sample=120 if thorough else 30, seed=ctx.seed)
    res["vm_crosschecked"] = n
    if bad:
        broken("extracted Spec.Cards and vm_compute disagree", bad[:3])
    res["wall_s"] = round(time.time() - t0, 2)
    return res


class _Ctx(vlib.Ctx):
    """stand-alone context: only prove() and the bookkeeping fields are used (no evidence file is written)"""

    def __init__(self, tier, seed):
        super().__init__("Spec", tier, seed, replay=True)


def main(argv):
    tier = "quick"
    seed = int(os.environ.get("VERIF_SEED", "0"))
    i = 1
    while i < len(argv):
        if argv[i] == "--tier":
            tier = argv[i + 1]
            i += 2
        elif argv[i] == "--seed":
            seed = int(argv[i + 1])
            i += 2
        else:
            print("usage: spec_tie.py [--tier quick|thorough] [--seed N]")
            return 2
    ctx = _Ctx(tier, seed)
    res = run(ctx)
    print(json.dumps({k: v for k, v in res.items() if k != "print_assumptions"}, indent=1, sort_keys=True))
    for l in res.get("print_assumptions", []):
        print("  " + l)
    print("obligations %d discharged %d" % (ctx.cov["obligations"], ctx.cov["discharged"]))
    for fd in ctx.findings:
        if fd.get("status") == "open" and fd.get("_reproduced"):
            print(f"KNOWN-FINDING: property={fd['property']} {fd['id']}: {fd['what'][:160]}...")
    print("attributed to known findings:", json.dumps(ctx.filtered, sort_keys=True))
    bad = list(ctx.broken_obligations)
    for b in bad[:6]:
        print("BROKEN:", json.dumps(b, default=str)[:1500])
    for vp, nf in getattr(ctx, "violations", []):
        print("VIOLATION (concrete failing input) replay=%s" % vp)
    if bad or not res.get("obligations_proved") or getattr(ctx, "violations", []):
        print("spec_tie: FAILED (%d broken)" % len(bad))
        return 1
    print("spec_tie: OK  files=%d in-scope=%d wf=%d real-reader=%d numbers=%d wall=%ss" % (
        res["files"], res["files_in_scope"], res["wf_files"], res["real_reader_checked"], res["numbers"], res["wall_s"]))
    return 0


if __name__ == "__main__":
    sys.exit(main(sys.argv))
