"""Trigger predicates of the open C07 findings.  Each decides from the CASE (text + program): the triggering
feature must be present, and removing exactly that feature must make the failure disappear."""
import re


def _comment_free(line):
    i = line.find("$")
    return line if i < 0 else line[:i].rstrip()


def C07_deleted_pointer_comment(case, params):
    """F-C07-deleted-pointer-comment: 'del surface.transform' on a surface whose pointer token is directly followed
    by a comment.  Feature: the program deletes the transform of surface s and the first line of s's card is
    '<number> <pointer> $ ...' or is followed by a 'c' comment line before the mnemonic."""
    import rt, spec
    if case.get("kind") != "comments-changed":
        return False
    c = case["case"]
    dels = [e["orig"] for e in case.get("prog", []) if e.get("kind") == "surface_transform" and e.get("transform") is None]
    if not dels:
        return False
    lines = c["text"].split("\n")
    hit = False
    out = []
    for k, l in enumerate(lines):
        m = re.match(r"^\s{0,4}[*+]?(\d+)\s+[+-]?\d+\s*(\$.*)?$", l.expandtabs(8))
        if m and int(m.group(1)) in dels and (m.group(2) or (k + 1 < len(lines) and spec.is_comment_line(lines[k + 1]))):
            hit = True
            out.append(_comment_free(l))
            continue
        out.append(l)
    if not hit:
        return False
    # ablation: the same case without the comment after the pointer
    out2 = []
    skip = False
    for k, l in enumerate(out):
        if skip and spec.is_comment_line(l):
            continue
        skip = bool(re.match(r"^\s{0,4}[*+]?(\d+)\s+[+-]?\d+\s*$", l.expandtabs(8))) and \
            int(re.match(r"^\s{0,4}[*+]?(\d+)", l.expandtabs(8)).group(1)) in dels
        out2.append(l)
    r = rt.c07_check(dict(c, text="\n".join(out2)), case.get("prog", []))
    return r is None


_VEC = re.compile(r"^\s{0,4}\*?(imp:|vol\b|u\b|lat\b|fill\b)", re.I)


def C07_comment_after_inner_shortcut(case, params):
    """F-C07-comment-after-inner-shortcut: a data-block per-cell card (IMP VOL U LAT FILL) with a '$' comment (or a
    'c' comment line) directly after a shortcut that is NOT its last entry, and an edit of one cell's datum.
    Ablation: the same card without its comments."""
    import rt, spec
    if case.get("kind") != "comments-changed":
        return False
    c = case["case"]
    if not any(e.get("kind") in ("importance", "volume", "universe_number", "cell_universe", "fill_universe", "lattice",
                                 "cell_number") for e in case.get("prog", [])):
        return False
    lines = c["text"].split("\n")
    out = []
    in_card = False
    hit = False
    for k, l in enumerate(lines):
        x = l.expandtabs(8)
        if _VEC.match(x):
            in_card = True
        elif x[:5].strip() and not spec.is_comment_line(x):
            in_card = False
        if in_card:
            if spec.is_comment_line(x):
                nxt = next((y for y in lines[k + 1:] if y.strip() and not spec.is_comment_line(y)), "")
                if nxt.expandtabs(8)[:5].strip() == "" and nxt.strip():
                    hit = hit or bool(re.search(r"\d*(r|i|ilog|j)\s*$", _comment_free(lines[k - 1]).lower()))
                    continue            # an interior comment line of the card: dropped in the ablation
            if "$" in x:
                data = _comment_free(x)
                more = next((y for y in lines[k + 1:] if y.strip() and not spec.is_comment_line(y)), "")
                if re.search(r"\d*(r|i|ilog|j)\s*$", data.lower()) and more.strip() and more.expandtabs(8)[:5].strip() == "":
                    hit = True
                    out.append(data)
                    continue
        out.append(l)
    if not hit:
        return False
    r = rt.c07_check(dict(c, text="\n".join(out)), case.get("prog", []))
    return r is None


def C07_comment_inside_shared_imp(case, params):
    """F-C07-comment-inside-shared-imp: a cell parameter 'imp:<two or more particles>' whose line carries a '$' comment
    (or is followed by a 'c' comment line) BEFORE its value, and an importance edit of that cell.
    Ablation: the same text without the comments inside that entry."""
    import rt, spec
    if case.get("kind") != "comments-changed":
        return False
    c = case["case"]
    if not any(e.get("kind") == "importance" for e in case.get("prog", [])):
        return False
    lines = c["text"].split("\n")
    out = []
    hit = False
    pending = False        # inside 'imp:a,b' waiting for its value
    for l in lines:
        x = l.expandtabs(8)
        data = _comment_free(x)
        if pending and spec.is_comment_line(x):
            hit = True
            continue
        m = re.search(r"imp:[^\s=,]+(,[^\s=,]+)+\s*=?\s*$", data, re.I)
        if m:
            pending = True
            if "$" in x:
                hit = True
                out.append(data)
                continue
        elif data.strip():
            pending = False
        out.append(l)
    if not hit:
        return False
    return rt.c07_check(dict(c, text="\n".join(out)), case.get("prog", [])) is None


def C07_comment_inside_interpolate(case, params):
    """F-C07-comment-inside-interpolate: a line that ends with an interpolate shortcut ('nI' / 'nILOG') followed by a
    '$' comment (or by a 'c' comment line) before the value it interpolates to, and an edit of a list value of that
    card.  Ablation: the same text without that comment."""
    import rt, spec
    if case.get("kind") != "comments-changed":
        return False
    c = case["case"]
    if not any(e.get("kind") in ("surface_constant", "tr_displacement") for e in case.get("prog", [])):
        return False
    lines = c["text"].split("\n")
    out = []
    hit = False
    pending = False
    for l in lines:
        x = l.expandtabs(8)
        if pending and spec.is_comment_line(x):
            hit = True
            continue
        data = _comment_free(x)
        if re.search(r"(^|\s)\d*i(log)?\s*$", data.lower()):
            pending = True
            if "$" in x:
                hit = True
                out.append(data)
                continue
        elif data.strip():
            pending = False
        out.append(l)
    if not hit:
        return False
    return rt.c07_check(dict(c, text="\n".join(out)), case.get("prog", [])) is None


def C07_joint_imp_card_comment(case, params):
    """F-C07-joint-imp-card-comment: a data-block IMP card for several particles ('imp:n,p ...') that carries a comment
    ('$ ...' on one of its lines or a 'c' line inside it), and an importance edit that makes the particles differ, so
    that the card is split.  Ablation: the same card without its comments."""
    import rt, spec
    if case.get("kind") != "comments-changed":
        return False
    c = case["case"]
    if not any(e.get("kind") == "importance" for e in case.get("prog", [])):
        return False
    lines = c["text"].split("\n")
    out = []
    in_card = False
    hit = False
    for l in lines:
        x = l.expandtabs(8)
        if re.match(r"^\s{0,4}\*?imp:[^\s,]+,", x, re.I):
            in_card = True
        elif x[:5].strip() and not spec.is_comment_line(x):
            in_card = False
        if in_card and spec.is_comment_line(x):
            hit = True
            continue
        if in_card and "$" in x:
            hit = True
            out.append(_comment_free(x))
            continue
        out.append(l)
    if not hit:
        return False
    return rt.c07_check(dict(c, text="\n".join(out)), case.get("prog", [])) is None


def C07_rotation_after_comment(case, params):
    import rt
    import findings_rt as FR
    return FR.rotation_after_comment(case, rt.c07_check)


def C07_amp_after_moved_value(case, params):
    import rt
    import findings_rt as FR
    return FR.amp_after_moved_value(case, rt.c07_check)


def C07_rotation_short_on_full_form(case, params):
    import rt
    import findings_rt as FR
    return FR.rotation_short_on_full_form(case, rt.c07_check)
