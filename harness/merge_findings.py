"""merge_findings.py — consolidate findings/Cxx.entries.json (open) and findings/Cxx.fixed.json (fixed)
into /verif/known_findings.json (run by hand by the coordinator; never at check time)."""
import glob
import json
import os

VERIF = os.path.dirname(os.path.dirname(os.path.abspath(__file__)))


def main():
    p = os.path.join(VERIF, "known_findings.json")
    d = json.load(open(p))
    byid = {f["id"]: f for f in d["findings"]}
    order = [f["id"] for f in d["findings"]]
    for path in sorted(glob.glob(os.path.join(VERIF, "findings", "C*.entries.json"))) + \
            sorted(glob.glob(os.path.join(VERIF, "findings", "Spec.entries.json"))) + \
            sorted(glob.glob(os.path.join(VERIF, "findings", "C*.fixed.json"))):
        prop = os.path.basename(path).split(".")[0]
        fixed = path.endswith(".fixed.json")
        for f in json.load(open(path)):
            f = dict(f)
            f.setdefault("property", prop)
            if fixed:
                f["status"] = "fixed"
                if not str(f.get("what", "")).startswith("fixed:"):
                    f["what"] = f"fixed: property={f['property']} {f.get('commit', '?')} {f.get('what', '')}"
            f.pop("_reproduced", None)
            if f["id"] not in byid:
                order.append(f["id"])
            byid[f["id"]] = f
    d["findings"] = [byid[i] for i in order]
    json.dump(d, open(p, "w"), indent=1)
    n_open = sum(1 for f in d["findings"] if f.get("status") == "open")
    print(f"known_findings.json: {len(d['findings'])} entries, {n_open} open")


if __name__ == "__main__":
    main()
