"""findings_C12.py — trigger predicates of the open known findings of property C12.

One generic predicate: a failing sentence belongs to a finding when (1) the shape has the finding's feature (computed
from the shape alone, gen_core.features), (2) the exception is the one the finding describes, and (3) the same
sentence with every *known* feature replaced by its ordinary alternative (gen_core.without) is accepted — so that a
different defect hiding in a sentence that also has a known feature is still reported as a violation."""
import gen_core as G

KNOWN = G.KNOWN_FEATURES


def known(tag):
    return G.known_feature(tag)


def removable(tag):
    return any(tag.startswith(k) and v for k, v in KNOWN.items())


def clean(shape):
    """the sentence without any removable known feature"""
    for _ in range(4):
        tags = [t for t in sorted(G.features(shape)) if removable(t)]
        if not tags:
            break
        for t in tags:
            w = G.without(shape, t)
            if w is not None:
                shape = w
    return shape


def _sentence_matches(case, params):
    import props.C12 as C12
    shape = case.get("shape")
    if shape is None:
        return False
    mask = case.get("mask", "0")
    block = case["block"]
    feats = G.features(shape)
    mine = sorted(t for t in feats if t.startswith(params["tag"]) and known(t))
    if not mine:
        return False
    if params.get("shape_kind") and shape[0] not in params["shape_kind"]:
        return False
    bad = C12.oracle(G.render(shape, mask), block)
    if bad is None or ("*" not in params["exceptions"] and bad["exception"] not in params["exceptions"]):
        return False
    c = clean(shape)
    after = C12.oracle(G.render(c, mask), block)
    if removable(mine[0]):
        return after is None
    # the feature cannot be taken out of the sentence: everything else known has been, and the failure is unchanged
    return after is not None and after["exception"] == bad["exception"]


def C12_feature(case, params):
    if case.get("kind") == "file":
        import props.C12 as C12
        cards = case.get("cards", [])
        # a file fails because one of its cards does ...
        if any(_sentence_matches(dict(c, kind="sentence"), params) for c in cards):
            return True
        # ... or because a card that is accepted alone is not accepted inside a file: the file without any known
        # feature must be read
        if not any(t.startswith(params["tag"]) and known(t) for c in cards for t in G.features(c["shape"])):
            return False
        # a designator that MODE cannot hold is taken out of every card of the file, not only out of the MODE card
        tags = sorted({t for c in cards for t in G.features(c["shape"]) if removable(t)})
        cleaned = []
        for c in cards:
            sh = c["shape"]
            for t in tags:
                if t.startswith("particle-") and t != "particle-comment:option-c":
                    sh = G.without(sh, t) or sh
            cleaned.append(dict(c, shape=clean(sh)))
        return C12.oracle_file(G.problem_text(cleaned, None, crlf=case.get("crlf", False)), case.get("version")) is None
    return _sentence_matches(case, params)
