"""translate_errors.py — regenerate coq/Gen/Errors.v from the *current source* of montepy (ast only).

What is emitted (types of coq/Model/Exn.v):
  hierarchy   : every class of montepy/errors.py with its proper ancestors (builtin ancestry by introspection of the
                running interpreter's builtins; sly's LexError from sly/lex.py by ast), plus every builtin class named in
                an `except` clause or raised by a primitive operation kind.
  handlers    : EVERY try/except statement inside a function of montepy (except montepy/_scripts): id
                "<file>:<qualified function>#<k>", the clauses in order (caught classes, possible exits of the clause body:
                Swallow / Convert C / Reraise / CheckWarn).  The exits are computed by one small walker over statement
                kinds; an unknown statement kind, a raise of something that is not a class call / the caught name, or an
                `if check_input:` whose then-branch does not warn, raises TranslateError (fail closed).
  sites       : the routing sites of read_input: for each a path of anchors (function, call/raise pattern); the chain of
                a site is the concatenation of the try statements enclosing each anchor (innermost first), each with
                the flag "a loop lies between the try and the anchor" (catching there ends that loop).
  init_steps  : order of {guarded parse, None-tree test raising ParsingError, first use of self._tree} in
                MCNP_Object.__init__.
  raise rows  : (site, function, class, local chain) for every `raise C(...)` statement of a function reachable by NAME
                from the site's root functions (conservative call graph: a call `x.f(...)`/`f(...)`, or an attribute
                `x.p` where p is a property, reaches every function of montepy called f / p).
  prim rows   : (site, function, kind, local chain) for the leak-prone primitive operations of those functions:
                IntConv `int(..)`, FloatConv `float(..)`/`fortran_float(..)`, Subscript `x[..]` (load), NumLookup
                (subscript of a numbered collection by number), Unpack (tuple-unpacking assignment / for target),
                OptAttr (attribute of the result of re.match/.search/.get/.match), EnumConv (call of an Enum class),
                Assert, Next, Lex (lexer.tokenize).
Anything the translator interprets: nothing beyond the recognised shapes listed here.
"""
import ast
import builtins
import hashlib
import importlib.util
import os

import vlib

GEN = os.path.join(vlib.COQ, "Gen", "Errors.v")


class TranslateError(Exception):
    pass


def fail(node, what, mod=""):
    raise TranslateError(f"{mod}:{getattr(node, 'lineno', '?')}: {what}: {ast.unparse(node)[:160]!r}")


SKIP_DIRS = ("_scripts",)
SKIP_FILES = ("_version.py",)


def modules():
    root = os.path.join(vlib.REPO, "montepy")
    out = []
    for d, dirs, files in os.walk(root):
        dirs[:] = sorted(x for x in dirs if x not in SKIP_DIRS and x != "__pycache__")
        for f in sorted(files):
            if f.endswith(".py") and f not in SKIP_FILES:
                p = os.path.join(d, f)
                out.append((os.path.relpath(p, root), p))
    return out


# ----------------------------------------------------------------------------- indexing
class Fn:
    def __init__(self, mod, qual, node, cls):
        self.mod = mod
        self.qual = qual
        self.node = node
        self.cls = cls
        self.name = node.name

    @property
    def key(self):
        return f"{self.mod}:{self.qual}"


def index_module(mod, tree, fns, classes, props):
    def walk(body, prefix, cls):
        for n in body:
            if isinstance(n, (ast.FunctionDef, ast.AsyncFunctionDef)):
                q = (prefix + "." if prefix else "") + n.name
                fns.append(Fn(mod, q, n, cls))
                for d in n.decorator_list:
                    s = ast.unparse(d)
                    if s == "property" or s.endswith(".setter") or s.endswith(".deleter") or \
                            s.startswith("make_prop_val_node") or s.startswith("make_prop_pointer"):
                        props.add(n.name)
                walk(n.body, q, None)
            elif isinstance(n, ast.ClassDef):
                bases = []
                for b in n.bases:
                    if isinstance(b, ast.Name):
                        bases.append(b.id)
                    elif isinstance(b, ast.Attribute):
                        bases.append(b.attr)
                    else:
                        bases.append(ast.unparse(b))
                classes.setdefault(n.name, (mod, bases))
                walk(n.body, (prefix + "." if prefix else "") + n.name, n.name)
            elif isinstance(n, (ast.If, ast.Try, ast.With, ast.For, ast.While)):
                for fld in ("body", "orelse", "finalbody"):
                    walk(getattr(n, fld, []) or [], prefix, cls)
                for h in getattr(n, "handlers", []) or []:
                    walk(h.body, prefix, cls)
    walk(tree.body, "", None)


WRITE_MODE_TESTS = ("'w' in mode",)


def own_nodes(fn_node):
    """nodes of a function body, not descending into nested function / class definitions, nor into the
    `if 'w' in mode:` branch of MCNP_InputFile.open (a read opens with mode 'r')"""
    stack = list(fn_node.body)
    while stack:
        n = stack.pop()
        yield n
        if isinstance(n, ast.If) and ast.unparse(n.test) in WRITE_MODE_TESTS:
            stack.extend(n.orelse)
            continue
        for c in ast.iter_child_nodes(n):
            if isinstance(c, (ast.FunctionDef, ast.AsyncFunctionDef, ast.ClassDef, ast.Lambda)):
                continue
            stack.append(c)


# ----------------------------------------------------------------------------- hierarchy
def builtin_ancestors(name):
    c = getattr(builtins, name, None)
    if not (isinstance(c, type) and issubclass(c, BaseException)):
        return None
    return [x.__name__ for x in c.__mro__[1:] if x is not object]


def lexerror_ancestors():
    spec = importlib.util.find_spec("sly.lex")
    if spec is None or not spec.origin:
        raise TranslateError("sly.lex not found")
    with open(spec.origin) as fh:
        tree = ast.parse(fh.read())
    for n in tree.body:
        if isinstance(n, ast.ClassDef) and n.name == "LexError":
            if len(n.bases) != 1 or not isinstance(n.bases[0], ast.Name):
                fail(n, "LexError bases", "sly/lex.py")
            b = n.bases[0].id
            a = builtin_ancestors(b)
            if a is None:
                fail(n, "LexError base is not a builtin exception", "sly/lex.py")
            return [b] + a
    raise TranslateError("class LexError not found in sly/lex.py")


PRIM_CLASSES = {
    "IntConv": ["ValueError"], "FloatConv": ["ValueError"], "Subscript": ["IndexError", "KeyError"],
    "NumLookup": ["KeyError"], "Unpack": ["ValueError"], "OptAttr": ["AttributeError"], "EnumConv": ["ValueError"],
    "Assert": ["AssertionError"], "Next": ["StopIteration"], "Lex": ["LexError"],
}
ALWAYS = ["ValueError", "TypeError", "FileNotFoundError", "KeyError", "IndexError", "AttributeError", "AssertionError",
          "StopIteration", "NotImplementedError", "RecursionError", "UnicodeDecodeError", "ZeroDivisionError",
          "OverflowError", "Exception", "BaseException"]


def build_hierarchy(errors_tree, extra_names):
    H = {}
    local = {}
    for n in errors_tree.body:
        if isinstance(n, ast.ClassDef):
            if len(n.bases) != 1 or not isinstance(n.bases[0], ast.Name):
                fail(n, "errors.py: class with other than one plain base", "errors.py")
            local[n.name] = n.bases[0].id

    def anc(name, seen=()):
        if name in seen:
            raise TranslateError(f"errors.py: cyclic bases at {name}")
        if name in local:
            b = local[name]
            return [b] + anc(b, seen + (name,))
        a = builtin_ancestors(name)
        if a is None:
            raise TranslateError(f"class {name}: neither in errors.py nor a builtin exception")
        return a

    for name in local:
        H[name] = anc(name)
    H["LexError"] = lexerror_ancestors()
    for name in list(extra_names) + ALWAYS:
        if name in H:
            continue
        a = builtin_ancestors(name)
        if a is None:
            raise TranslateError(f"exception class {name} is unknown (not in errors.py, not a builtin)")
        H[name] = a
    # close under ancestors
    for name in list(H):
        for a in H[name]:
            if a not in H:
                H[a] = builtin_ancestors(a) if builtin_ancestors(a) is not None else anc(a)
    return H, local


# ----------------------------------------------------------------------------- handler bodies
def class_names_of(typ, mod):
    if typ is None:
        return ["BaseException"]
    if isinstance(typ, ast.Name):
        return [typ.id]
    if isinstance(typ, ast.Attribute):
        return [typ.attr]
    if isinstance(typ, ast.Tuple):
        out = []
        for e in typ.elts:
            out += class_names_of(e, mod)
        return out
    fail(typ, "except clause: unrecognised class expression", mod)


def raised_class(node, ename, mod):
    """Raise statement -> 'reraise' | ('convert', class name)"""
    if node.exc is None:
        return "reraise"
    e = node.exc
    if isinstance(e, ast.Name):
        if ename is not None and e.id == ename:
            return "reraise"
        return ("convert", e.id)          # raise SomeClass  (no call)
    if isinstance(e, ast.Call):
        f = e.func
        if isinstance(f, ast.Name):
            return ("convert", f.id)
        if isinstance(f, ast.Attribute):
            return ("convert", f.attr)
    fail(node, "raise of something that is neither the caught name nor a class (call)", mod)


def is_warn_call(st):
    return isinstance(st, ast.Expr) and isinstance(st.value, ast.Call) and ast.unparse(st.value.func) in ("warnings.warn", "warn")


def body_exits(stmts, ename, mod, local_fns, depth=0):
    """possible exits of a statement list: subset of {'fall', 'reraise', 'checkwarn', ('convert', C)};
    'fall' = the list completes (or returns / continues / breaks) without an exception"""
    if depth > 6:
        raise TranslateError(f"{mod}: handler nesting too deep")
    out = set()
    for i, st in enumerate(stmts):
        if isinstance(st, ast.Raise):
            out.add(raised_class(st, ename, mod))
            return out
        if isinstance(st, (ast.Return, ast.Continue, ast.Break)):
            out.add("fall")
            return out
        if isinstance(st, ast.If):
            if isinstance(st.test, ast.Name) and st.test.id == "check_input":
                t = body_exits(st.body, ename, mod, local_fns, depth + 1)
                e = body_exits(st.orelse, ename, mod, local_fns, depth + 1) if st.orelse else {"fall"}
                if t == {"fall"} and any(is_warn_call(x) for x in st.body) and e == {"reraise"}:
                    out.add("checkwarn")
                    # after the if: only reached in check mode (the then-branch fell through or continued)
                    if any(isinstance(x, (ast.Continue, ast.Return, ast.Break)) for x in st.body):
                        return out
                    rest = body_exits(stmts[i + 1:], ename, mod, local_fns, depth + 1)
                    if rest != {"fall"}:
                        fail(st, "statements after `if check_input:` may raise", mod)
                    return out
                fail(st, "`if check_input:` is not {warn ...} else {raise e}", mod)
            if isinstance(st.test, ast.UnaryOp) and isinstance(st.test.op, ast.Not) \
                    and isinstance(st.test.operand, ast.Name) and st.test.operand.id == "check_input":
                # `if not check_input: raise e` followed by (or else:) the warning
                t = body_exits(st.body, ename, mod, local_fns, depth + 1)
                rest_stmts = st.orelse if st.orelse else stmts[i + 1:]
                e = body_exits(rest_stmts, ename, mod, local_fns, depth + 1)
                if t == {"reraise"} and e == {"fall"} and any(is_warn_call(x) for x in rest_stmts):
                    if st.orelse and body_exits(stmts[i + 1:], ename, mod, local_fns, depth + 1) != {"fall"}:
                        fail(st, "statements after `if not check_input:` may raise", mod)
                    out.add("checkwarn")
                    return out
                fail(st, "`if not check_input:` is not {raise e} else/then {warn ...}", mod)
            t = body_exits(st.body, ename, mod, local_fns, depth + 1)
            e = body_exits(st.orelse, ename, mod, local_fns, depth + 1) if st.orelse else {"fall"}
            both = t | e
            out |= (both - {"fall"})
            if "fall" not in both:
                return out
            # a branch that ended with return/continue also reports 'fall': the following statements may or may not run
            continue
        if isinstance(st, ast.Expr) and isinstance(st.value, ast.Call) and isinstance(st.value.func, ast.Name) \
                and st.value.func.id in local_fns:
            f = local_fns[st.value.func.id]
            args = [a.arg for a in f.args.args]
            if len(args) != 1 or len(st.value.args) != 1 or not isinstance(st.value.args[0], ast.Name) \
                    or st.value.args[0].id != ename:
                fail(st, "call of a local error helper with other than the caught exception", mod)
            r = body_exits([s for s in f.body if not is_doc(s)], args[0], mod, {}, depth + 1)
            out |= (r - {"fall"})
            if "fall" not in r and "checkwarn" not in r:
                return out
            continue
        if isinstance(st, (ast.Expr, ast.Assign, ast.AugAssign, ast.AnnAssign, ast.Pass, ast.Delete, ast.Assert,
                           ast.Global, ast.Nonlocal, ast.Import, ast.ImportFrom)):
            continue
        if isinstance(st, (ast.For, ast.While, ast.With)):
            r = body_exits(st.body, ename, mod, local_fns, depth + 1)
            out |= (r - {"fall"})
            continue
        if isinstance(st, ast.Try):
            r = body_exits(st.body, ename, mod, local_fns, depth + 1)
            for h in st.handlers:
                r |= body_exits(h.body, h.name, mod, local_fns, depth + 1)
            out |= (r - {"fall"})
            continue
        fail(st, "handler body: unrecognised statement kind " + type(st).__name__, mod)
    out.add("fall")
    return out


def is_doc(st):
    return isinstance(st, ast.Expr) and isinstance(st.value, ast.Constant) and isinstance(st.value.value, str)


ORDER = {"fall": 0, "reraise": 1, "checkwarn": 2}


def exits_to_actions(ex):
    acts = []
    if "checkwarn" in ex:
        # CheckWarn already says: in check mode the handler completes normally
        ex = set(ex) - {"fall"}
    for x in sorted(ex, key=lambda v: (ORDER.get(v, 3) if isinstance(v, str) else 3, str(v))):
        if x == "fall":
            acts.append(("Swallow",))
        elif x == "reraise":
            acts.append(("Reraise",))
        elif x == "checkwarn":
            acts.append(("CheckWarn",))
        else:
            acts.append(("Convert", x[1]))
    return acts


def translate_try(tr, fn, mod, local_fns):
    """-> list of clauses [(caught class names, actions)]"""
    clauses = []
    if tr.orelse:
        pass      # the else part runs after the body without an exception: no routing effect
    for h in tr.handlers:
        caught = class_names_of(h.type, mod)
        body = [s for s in h.body if not is_doc(s)]
        # `if isinstance(e, C): raise e` first  ==  an earlier clause `except C: raise`
        while body and isinstance(body[0], ast.If) and isinstance(body[0].test, ast.Call) \
                and ast.unparse(body[0].test.func) == "isinstance" and len(body[0].test.args) == 2 \
                and isinstance(body[0].test.args[0], ast.Name) and body[0].test.args[0].id == h.name \
                and not body[0].orelse and len(body[0].body) == 1 and isinstance(body[0].body[0], ast.Raise) \
                and raised_class(body[0].body[0], h.name, mod) == "reraise":
            clauses.append((class_names_of(body[0].test.args[1], mod), [("Reraise",)]))
            body = body[1:]
        ex = body_exits(body, h.name, mod, local_fns)
        clauses.append((caught, exits_to_actions(ex)))
    return clauses


# ----------------------------------------------------------------------------- per function: tries, raises, prims
def local_functions(fn_node):
    return {n.name: n for n in fn_node.body if isinstance(n, ast.FunctionDef)}


class FnInfo:
    """try statements of a function with ids; for every node its stack of enclosing try-bodies"""

    def __init__(self, fn, outer_local_fns=None):
        self.fn = fn
        self.tries = []          # (id, ast.Try)
        self.stack_of = {}       # id(node) -> list of (try id, loop_between: bool) innermost first
        lf = dict(outer_local_fns or {})
        lf.update(local_functions(fn.node))
        self.local_fns = lf
        self._walk(fn.node.body, [])

    def _walk(self, stmts, stack):
        for st in stmts:
            self._node(st, stack)

    def _node(self, n, stack):
        """stack: list of [try id, loop_between] innermost LAST"""
        if isinstance(n, (ast.FunctionDef, ast.AsyncFunctionDef, ast.ClassDef, ast.Lambda)):
            return
        self.stack_of[id(n)] = [(t, l) for t, l in reversed(stack)]
        if isinstance(n, ast.Try):
            if n.handlers:
                tid = f"{self.fn.key}#{len(self.tries)}"
                self.tries.append((tid, n))
                self._walk(n.body, stack + [[tid, False]])
            else:
                self._walk(n.body, stack)
            for h in n.handlers:
                self._walk(h.body, stack)
            self._walk(n.orelse, stack)
            self._walk(n.finalbody, stack)
            return
        if isinstance(n, (ast.For, ast.While)):
            # the iterable / test is evaluated inside the enclosing loops only
            inner = [[t, True] for t, l in stack]
            # the iterable may be a generator: its exceptions surface at each step of the loop, and catching
            # them outside the loop ends the loop
            for c in ([n.iter, n.target] if isinstance(n, ast.For) else [n.test]):
                self._node(c, inner)
            self._walk(n.body, inner)
            self._walk(n.orelse, stack)
            return
        for c in ast.iter_child_nodes(n):
            self._node(c, stack)


NUM_COLLECTIONS = ("cells", "surfaces", "materials", "universes", "transforms", "_cells", "_surfaces", "_materials",
                   "_universes", "_transforms", "container")


def prim_kind(n, enum_classes):
    """leak-prone primitive operation kind of an AST node, or None"""
    if isinstance(n, ast.Call):
        f = n.func
        if isinstance(f, ast.Name):
            if f.id == "int" and n.args:
                return "IntConv"
            if f.id in ("float", "fortran_float") and n.args:
                return "FloatConv"
            if f.id == "next" and len(n.args) == 1:
                return "Next"
            if f.id in enum_classes and len(n.args) == 1:
                return "EnumConv"
        if isinstance(f, ast.Attribute):
            if f.attr == "tokenize" and isinstance(f.value, ast.Name) and f.value.id == "lexer":
                return "Lex"
            if f.attr == "fortran_float":
                return "FloatConv"
            if f.attr in enum_classes and len(n.args) == 1:
                return "EnumConv"
        return None
    if isinstance(n, ast.Subscript) and isinstance(n.ctx, ast.Load):
        if isinstance(n.slice, ast.Slice):
            return None
        b = n.value
        nm = b.id if isinstance(b, ast.Name) else (b.attr if isinstance(b, ast.Attribute) else None)
        if nm in NUM_COLLECTIONS:
            return "NumLookup"
        return "Subscript"
    if isinstance(n, ast.Attribute) and isinstance(n.ctx, ast.Load) and isinstance(n.value, ast.Call):
        g = n.value.func
        gn = g.attr if isinstance(g, ast.Attribute) else (g.id if isinstance(g, ast.Name) else "")
        if gn in ("match", "search", "fullmatch", "get"):
            return "OptAttr"
        return None
    if isinstance(n, ast.Assert):
        return "Assert"
    if isinstance(n, ast.Assign) and len(n.targets) == 1 and isinstance(n.targets[0], (ast.Tuple, ast.List)) \
            and not isinstance(n.value, (ast.Tuple, ast.List)):
        return "Unpack"
    if isinstance(n, ast.For) and isinstance(n.target, (ast.Tuple, ast.List)) and isinstance(n.iter, (ast.Name, ast.Attribute)):
        return "Unpack"
    return None


# ----------------------------------------------------------------------------- sites
# anchor: (module, qualified function, kind, pattern)   kind 'call' = ast.unparse(call.func) equals pattern;
# 'raise' = raise of that class.  The chain of the site = try-stacks along the path, innermost first.
P_PARSE_INPUT = "mcnp_problem.py", "MCNP_Problem.parse_input"
P_UIP = "mcnp_problem.py", "MCNP_Problem.__update_internal_pointers"
P_INIT = "mcnp_object.py", "MCNP_Object.__init__"
P_CELLS_UP = "cells.py", "Cells.update_pointers"
P_CELLS_BLANK = "cells.py", "Cells.__setup_blank_cell_modifiers"
P_FLUSH = "input_parser/input_syntax_reader.py", "read_data.flush_input"

A_OBJ = P_PARSE_INPUT + ("call", "obj_parser")
A_UIP = P_PARSE_INPUT + ("call", "self.__update_internal_pointers")
A_SYNTAX = P_PARSE_INPUT + ("call", "input_syntax_reader.read_input_syntax")
A_CELLS_UP = P_UIP + ("call", "self._cells.update_pointers")
A_BLANK = P_CELLS_UP + ("call", "self.__setup_blank_cell_modifiers")

SITES = [
    # name, anchor path (innermost first), phase (loop = inside the per-input loop of parse_input; ptr = pointer update)
    ("restart", [P_INIT + ("call", "parser.restart"), A_OBJ], "loop"),
    ("parse", [P_INIT + ("call", "parser.parse"), A_OBJ], "loop"),
    ("tree_none", [P_INIT + ("raise", "ParsingError"), A_OBJ], "loop"),
    ("construct", [A_OBJ], "loop"),
    ("link", [P_PARSE_INPUT + ("call", "obj.link_to_problem")], "loop"),
    ("append", [P_PARSE_INPUT + ("call", "obj_container.append")], "loop"),
    ("append_material", [P_PARSE_INPUT + ("call", "self._materials.append")], "loop"),
    ("append_transform", [P_PARSE_INPUT + ("call", "self._transforms.append")], "loop"),
    ("read_card", [P_FLUSH + ("call", "ReadInput"), A_SYNTAX], "loop"),
    ("syntax", [A_SYNTAX], "loop"),
    ("load_data", [P_UIP + ("call", "self.__load_data_inputs_to_object"), A_UIP], "ptr"),
    ("cells_once", [P_CELLS_UP + ("raise", "MalformedInputError"), A_CELLS_UP, A_UIP], "ptr"),
    ("cells_merge", [P_CELLS_UP + ("call", "getattr(self, attr).merge"), A_CELLS_UP, A_UIP], "ptr"),
    ("cell_pointers", [P_CELLS_UP + ("call", "cell.update_pointers"), A_CELLS_UP, A_UIP], "ptr"),
    ("cells_modifiers", [P_CELLS_BLANK + ("call", "card.push_to_cells"), A_BLANK, A_CELLS_UP, A_UIP], "ptr"),
    ("surface_pointers", [P_UIP + ("call", "surface.update_pointers"), A_UIP], "ptr"),
    ("data_pointers", [P_UIP + ("call", "input.update_pointers"), A_UIP], "ptr"),
]

# root functions of the conservative call graph of each site: (module suffix or None, function name)
ROOTS = {
    "restart": [],
    "parse": [("input_parser/parser_base.py", "parse"), ("input_parser/mcnp_input.py", "tokenize"), ("@parser_actions", None)],
    "tree_none": [],
    "construct": [("cell.py", "__init__"), ("surfaces/surface_builder.py", "surface_builder"),
                  ("data_inputs/data_parser.py", "parse_data")],
    "link": [(None, "link_to_problem")],
    "append": [("numbered_object_collection.py", "append")],
    "append_material": [("numbered_object_collection.py", "append")],
    "append_transform": [("numbered_object_collection.py", "append")],
    "read_card": [("input_parser/mcnp_input.py", "ReadInput.__init__")],
    "syntax": [("input_parser/input_syntax_reader.py", None), ("input_parser/input_file.py", None)],
    "load_data": [("mcnp_problem.py", "__load_data_inputs_to_object")],
    "cells_once": [],
    "cells_merge": [("data_inputs/", "merge")],
    "cell_pointers": [("cell.py", "update_pointers")],
    "cells_modifiers": [("data_inputs/", "push_to_cells"), ("data_inputs/", "_clear_data")],
    "surface_pointers": [("surfaces/", "update_pointers")],
    "data_pointers": [("data_inputs/", "update_pointers")],
}
# names at which the closure of a site stops (they are other sites' anchors)
STOP = {
    "construct": {"parse", "tokenize", "restart"},
    "read_card": set(),
}
BUILTIN_METHODS = {
    "append", "extend", "pop", "remove", "get", "items", "keys", "values", "copy", "update", "add", "clear", "index",
    "count", "insert", "sort", "join", "split", "strip", "rstrip", "lstrip", "lower", "upper", "format", "replace",
    "startswith", "endswith", "isdigit", "group", "groups", "match", "search", "warn", "deepcopy", "isclose", "array",
    "zip_longest", "popleft", "expandtabs", "decode", "encode", "read", "readline", "write", "open", "close",
    "setdefault", "discard", "union", "issubset", "reverse", "fullmatch", "finditer", "sub", "is_file", "isfile",
    "isdir", "dirname", "abspath", "tolist", "reshape", "dot", "title", "capitalize",
}
# never followed: the write path and debugging helpers (a read never calls them)
NEVER = {"format_for_mcnp_input", "write_to_file", "_update_values", "validate", "format", "_debug_parsing_error",
         "wrap_string_for_mcnp", "__str__", "__repr__", "_format_tree", "remove_duplicate_surfaces",
         "find_duplicate_surfaces", "add_cell_children_to_problem"}


def collect():
    mods = modules()
    trees = {}
    fns = []
    classes = {}
    props = set()
    src_digest = hashlib.sha256()
    for rel, p in mods:
        with open(p) as fh:
            src = fh.read()
        src_digest.update(rel.encode() + b"\0" + src.encode())
        trees[rel] = ast.parse(src)
        index_module(rel, trees[rel], fns, classes, props)
    by_key = {}
    for f in fns:
        if f.key in by_key:
            # property getter/setter pairs share a name: keep all, suffix the later ones
            k = 2
            while f"{f.key}~{k}" in by_key:
                k += 1
            f.qual = f"{f.qual}~{k}"
        by_key[f.key] = f
    # Enum classes (by declared base name)
    enum_classes = {c for c, (m, b) in classes.items() if any(x in ("Enum", "IntEnum", "Flag") for x in b)}

    # ---- handlers of every function
    infos = {}
    handlers = []      # (id, line, clauses)
    except_names = set()
    parent_local = {}
    for f in fns:
        # nested functions see the local helpers of their parents
        outer = {}
        if "." in f.qual:
            par = f"{f.mod}:{f.qual.rsplit('.', 1)[0]}"
            if par in infos:
                outer = infos[par].local_fns
        info = FnInfo(f, outer)
        infos[f.key] = info
        for tid, tr in info.tries:
            cl = translate_try(tr, f, f.mod, info.local_fns)
            for caught, acts in cl:
                except_names.update(caught)
                for a in acts:
                    if a[0] == "Convert":
                        except_names.add(a[1])
            handlers.append((tid, tr.lineno, cl))
    # module-level try statements: only the import guards of __init__.py are tolerated
    for rel, tree in trees.items():
        for n in tree.body:
            if isinstance(n, ast.Try) and rel != "__init__.py":
                fail(n, "module-level try statement outside montepy/__init__.py", rel)

    # ---- hierarchy
    extra = set()
    for v in PRIM_CLASSES.values():
        extra.update(v)
    unknown_convert = set()
    H, local = build_hierarchy(trees["errors.py"], sorted((except_names - {"LexError"}) | extra))

    # ---- sites
    def find_fn(mod, qual):
        k = f"{mod}:{qual}"
        if k not in by_key:
            raise TranslateError(f"function {k} not found")
        return by_key[k]

    def anchor_stack(anchor):
        mod, qual, kind, pat = anchor
        f = find_fn(mod, qual)
        info = infos[f.key]
        hits = []
        for n in own_nodes(f.node):
            if kind == "call" and isinstance(n, ast.Call) and ast.unparse(n.func) == pat:
                hits.append(n)
            if kind == "raise" and isinstance(n, ast.Raise) and n.exc is not None:
                r = raised_class(n, None, mod)
                if r != "reraise" and r[1] == pat and id(n) in info.stack_of:
                    # a raise inside one of the function's own handlers is a Convert action, not an anchor
                    if not in_handler(f.node, n):
                        hits.append(n)
        if len(hits) != 1:
            raise TranslateError(f"anchor {kind} {pat!r} in {mod}:{qual}: found {len(hits)} times (expected once)")
        return info.stack_of[id(hits[0])]

    sites = []
    for name, path, phase in SITES:
        chain = []
        for a in path:
            chain += anchor_stack(a)
        sites.append((name, chain, phase))

    # ---- init_steps of MCNP_Object.__init__
    init = find_fn(*P_INIT)
    init_steps = translate_init(init, infos[init.key])

    # ---- "only allowed once" rules
    once_rules = []
    for mod, qual in ONCE_FUNCTIONS:
        k = f"{mod}:{qual}"
        if k in by_key:
            for t, a, c in once_rules_of(by_key[k]):
                once_rules.append((k, t, a, c))

    # ---- conservative call graph
    by_name = {}
    for f in fns:
        by_name.setdefault(f.name, []).append(f)
    parser_actions = [f for f in fns if any(isinstance(d, ast.Call) and ast.unparse(d.func) == "_" for d in f.node.decorator_list)]

    # class families: a class with its ancestors and descendants (by name)
    def ancestors_of(c, seen=None):
        seen = seen if seen is not None else set()
        for b in classes.get(c, ("", []))[1]:
            if b in classes and b not in seen:
                seen.add(b)
                ancestors_of(b, seen)
        return seen

    anc_of = {c: ancestors_of(c) for c in classes}
    family = {}
    for c in classes:
        fam = {c} | anc_of[c]
        for d in classes:
            if c in anc_of[d]:
                fam.add(d)
        family[c] = fam

    def owner_class(f):
        if f.cls:
            return f.cls
        for part in f.qual.split("."):
            if part in classes:
                return part
        return None

    def targets(f):
        """functions a function may call (conservative, by name; `self.`/`super().` calls stay inside the class family;
        names that are methods of builtin containers / strings are only followed on self)"""
        out = []
        own = owner_class(f)
        fam = family.get(own, set()) if own else set()

        def named(nm, only_family=False, only_module_level=False):
            for g in by_name.get(nm, []):
                if only_family and owner_class(g) not in fam:
                    continue
                if only_module_level and (g.cls is not None):
                    continue
                out.append(g)

        for n in own_nodes(f.node):
            if isinstance(n, ast.Call):
                g = n.func
                if isinstance(g, ast.Name):
                    if g.id in classes:
                        for c in {g.id} | anc_of[g.id]:
                            for h in by_name.get("__init__", []):
                                if h.cls == c:
                                    out.append(h)
                    else:
                        named(g.id, only_module_level=True)
                elif isinstance(g, ast.Attribute):
                    recv = ast.unparse(g.value)
                    if recv in ("self", "super()", "cls") or recv.startswith("self.__class__"):
                        named(g.attr, only_family=True)
                    elif g.attr in classes:
                        for c in {g.attr} | anc_of[g.attr]:
                            for h in by_name.get("__init__", []):
                                if h.cls == c:
                                    out.append(h)
                    elif g.attr not in BUILTIN_METHODS:
                        named(g.attr)
            elif isinstance(n, ast.Attribute) and n.attr in props:
                recv = ast.unparse(n.value)
                if recv == "self":
                    named(n.attr, only_family=True)
                else:
                    for g in by_name.get(n.attr, []):
                        if g.name in props and g.cls is not None:
                            out.append(g)
        return out

    def closure(site):
        roots = []
        for mod, nm in ROOTS[site]:
            if mod == "@parser_actions":
                roots += parser_actions
                roots += [f for f in fns if f.name == "error" and f.mod.startswith("input_parser/")]
                continue
            for f in fns:
                if mod is not None and not (f.mod == mod or (mod.endswith("/") and f.mod.startswith(mod))):
                    continue
                if nm is None or f.name == nm or f.qual == nm:
                    roots.append(f)
        if ROOTS[site] and not roots:
            raise TranslateError(f"site {site}: no root function found")
        seen = {}
        todo = list(roots)
        stop = STOP.get(site, set()) | NEVER
        while todo:
            f = todo.pop()
            if f.key in seen or f.name in stop and f not in roots:
                continue
            seen[f.key] = f
            for g in targets(f):
                if g.mod == "errors.py":
                    continue      # constructors of the exception classes only build the message
                if g.key not in seen and g.name not in stop:
                    todo.append(g)
            for g in fns:       # nested functions of f
                if g.mod == f.mod and g.qual.startswith(f.qual + ".") and g.key not in seen:
                    todo.append(g)
        return [seen[k] for k in sorted(seen)]

    raise_rows = []
    prim_rows = []
    reach = {}
    for name, chain, phase in sites:
        fs = closure(name)
        reach[name] = len(fs)
        for f in fs:
            info = infos[f.key]
            for n in own_nodes(f.node):
                if id(n) not in info.stack_of:
                    continue
                local_chain = info.stack_of[id(n)]
                if isinstance(n, ast.Raise) and n.exc is not None:
                    if in_handler(f.node, n):
                        continue          # accounted for as the handler's Convert / Reraise action
                    r = raised_class(n, None, f.mod)
                    if r == "reraise":
                        continue
                    if isinstance(n.exc, ast.Name) and n.exc.id not in classes and builtin_ancestors(n.exc.id) is None:
                        # `raise e` of a parameter / local variable holding a caught exception (local error helpers):
                        # accounted for where the helper is called from a handler
                        argn = {a.arg for a in f.node.args.args}
                        if n.exc.id in argn:
                            continue
                        fail(n, "raise of a name that is neither a class nor a parameter", f.mod)
                    raise_rows.append((name, f.key, r[1], local_chain, n.lineno))
                k = prim_kind(n, enum_classes)
                if k is not None:
                    prim_rows.append((name, f.key, k, local_chain, n.lineno, in_handler(f.node, n)))
    # classes raised deliberately must be known
    for row in raise_rows:
        c = row[2]
        if c not in H:
            a = builtin_ancestors(c)
            if a is not None:
                H[c] = a
                for x in a:
                    if x not in H:
                        H[x] = builtin_ancestors(x)
            elif c in classes or c in ("DeprecatedError",):
                # a class of montepy outside errors.py, or a name that is not defined at all (raising it is a NameError)
                H[c] = ["Exception", "BaseException"] if c in classes else ["NameError", "Exception", "BaseException"]
                for x in H[c]:
                    if x not in H:
                        H[x] = builtin_ancestors(x)
            else:
                raise TranslateError(f"raise of unknown class {c} in {row[1]}")
    return {
        "digest": src_digest.hexdigest()[:16], "hierarchy": H, "handlers": handlers, "sites": sites,
        "init_steps": init_steps, "raise_rows": raise_rows, "prim_rows": prim_rows, "reach": reach,
        "errors_classes": sorted(local), "once_rules": once_rules,
    }


def in_handler(fn_node, target):
    """is the node inside the body of an except clause of the function (not of a nested def)?"""
    def walk(n, inside):
        if n is target:
            return inside
        if isinstance(n, (ast.FunctionDef, ast.AsyncFunctionDef, ast.ClassDef, ast.Lambda)) and n is not fn_node:
            return None
        if isinstance(n, ast.ExceptHandler):
            for c in ast.iter_child_nodes(n):
                r = walk(c, True)
                if r is not None:
                    return r
            return None
        for c in ast.iter_child_nodes(n):
            r = walk(c, inside)
            if r is not None:
                return r
        return None
    r = walk(fn_node, False)
    return bool(r)


ONCE_FUNCTIONS = [("mcnp_problem.py", "MCNP_Problem.__load_data_inputs_to_object"), ("cells.py", "Cells.update_pointers")]


def once_rules_of(fn):
    """"only allowed once" rules of a function: a set S, a test `T in S` guarding a raise, and `S.add(Y)`:
    -> [(tested expression, added expression, raised class)] with local names that are assigned exactly once by a
    plain `name = expr` replaced by that expression (so `input_class = type(input)` and `type(input)` read the same)"""
    assigns = {}
    counts = {}
    for n in own_nodes(fn.node):
        if isinstance(n, ast.Assign) and len(n.targets) == 1 and isinstance(n.targets[0], ast.Name):
            counts[n.targets[0].id] = counts.get(n.targets[0].id, 0) + 1
            assigns[n.targets[0].id] = n.value
        elif isinstance(n, (ast.For, ast.AugAssign)):
            tg = n.target
            for x in ast.walk(tg):
                if isinstance(x, ast.Name):
                    counts[x.id] = counts.get(x.id, 0) + 2

    def norm(e, depth=0):
        import copy
        e = copy.deepcopy(e)

        class Sub(ast.NodeTransformer):
            def visit_Name(self, node):
                if depth < 4 and counts.get(node.id) == 1 and node.id in assigns and isinstance(node.ctx, ast.Load):
                    return ast.parse(norm(assigns[node.id], depth + 1), mode="eval").body
                return node
        e = Sub().visit(e)
        return ast.unparse(e)

    adds = {}
    for n in own_nodes(fn.node):
        if isinstance(n, ast.Call) and isinstance(n.func, ast.Attribute) and n.func.attr == "add" \
                and isinstance(n.func.value, ast.Name) and len(n.args) == 1:
            adds.setdefault(n.func.value.id, []).append(norm(n.args[0]))
    rules = []
    for n in own_nodes(fn.node):
        if not isinstance(n, ast.If):
            continue
        for c in ast.walk(n.test):
            if isinstance(c, ast.Compare) and len(c.ops) == 1 and isinstance(c.ops[0], ast.In) \
                    and isinstance(c.comparators[0], ast.Name) and c.comparators[0].id in adds:
                raised = [r for st in n.body for r in ast.walk(st) if isinstance(r, ast.Raise) and r.exc is not None]
                if not raised:
                    continue
                cls_ = raised_class(raised[0], None, fn.mod)
                if cls_ == "reraise":
                    continue
                for y in adds[c.comparators[0].id]:
                    rules.append((norm(c.left), y, cls_[1]))
    return rules


def translate_init(fn, info):
    """MCNP_Object.__init__: the statements of `if input:` classified, in order"""
    body = [s for s in fn.node.body if not is_doc(s)]
    ifs = [s for s in body if isinstance(s, ast.If) and ast.unparse(s.test) == "input"]
    if len(ifs) != 1:
        fail(fn.node, "MCNP_Object.__init__: expected exactly one `if input:`", fn.mod)
    steps = []
    for st in ifs[0].body:
        src = ast.unparse(st)
        if isinstance(st, ast.Try):
            calls = [ast.unparse(c.func) for c in ast.walk(st) if isinstance(c, ast.Call)]
            if "parser.parse" in calls:
                tid = [t for t, n in info.tries if n is st]
                steps.append(("ParseTry", tid[0] if tid else ""))
                continue
            fail(st, "MCNP_Object.__init__: try statement without parser.parse", fn.mod)
        if isinstance(st, ast.If) and ast.unparse(st.test) == "self._tree is None" and len(st.body) == 1 \
                and isinstance(st.body[0], ast.Raise) and not st.orelse:
            steps.append(("NoneCheck", raised_class(st.body[0], None, fn.mod)[1]))
            continue
        if isinstance(st, ast.If) and len(st.body) == 1 and isinstance(st.body[0], ast.Raise) \
                and "self._tree" not in ast.unparse(st.test):
            steps.append(("Guard", raised_class(st.body[0], None, fn.mod)[1]))
            continue
        if "self._tree" in src:
            steps.append(("UseTree",))
            continue
        steps.append(("Other",))
    return steps


# ----------------------------------------------------------------------------- emission
def cs(s):
    return '"' + s.replace('"', '""') + '"'


def clist(xs):
    return "[" + "; ".join(xs) + "]"


def act_coq(a):
    if a[0] == "Convert":
        return f"Convert {cs(a[1])}"
    return a[0]


def frames_coq(chain):
    return clist(f"mkframe {cs(t)} {'true' if l else 'false'}" for t, l in chain)


def hexs(s):
    return s.encode("utf-8").hex()


def act_wire(a):
    return {"Swallow": "S", "Reraise": "R", "CheckWarn": "W"}.get(a[0]) or ("C" + a[1])


def handler_wire(clauses):
    """clauses: caught1,caught2>act,act;..."""
    return ";".join(",".join(c) + ">" + ",".join(act_wire(a) for a in acts) for c, acts in clauses)


def hier_wire(H):
    return ";".join(c + ">" + ",".join(H[c]) for c in sorted(H))


def chain_wire(chain, hmap):
    """frames separated by '/', each: <0|1 ends loop>!<handler wire>"""
    return "/".join(("1" if l else "0") + "!" + handler_wire(hmap[t]) for t, l in chain) or "-"


def render(T):
    H = T["hierarchy"]
    hmap = {tid: cl for tid, ln, cl in T["handlers"]}
    o = []
    o.append("(* GENERATED on every run by harness/translate_errors.py from the working tree of the repository under\n"
             "   test (ast over montepy/**/*.py: class hierarchy of errors.py, every try/except, the routing sites of\n"
             "   read_input, MCNP_Object.__init__ step order, raise statements and leak-prone primitive operations of\n"
             "   the functions reachable by name from each site).  Never edit, never commit.\n"
             f"   digest of the translated sources: {T['digest']} *)")
    o.append("From Coq Require Import List String Bool.")
    o.append("From MPV Require Import Model.Exn.")
    o.append("Import ListNotations.")
    o.append("Open Scope string_scope.")
    o.append("")
    o.append("Definition gen_hierarchy : hierarchy := [")
    o.append(";\n".join(f"  ({cs(c)}, {clist(cs(a) for a in H[c])})" for c in sorted(H)))
    o.append("].")
    o.append("")
    o.append("(* the classes defined in montepy/errors.py *)")
    o.append("Definition gen_errors_classes : list cls := " + clist(cs(c) for c in T["errors_classes"]) + ".")
    o.append("")
    o.append("Definition gen_handlers : list handler := [")
    rows = []
    for tid, ln, cl in T["handlers"]:
        cls_ = clist(f"mkclause {clist(cs(c) for c in caught)} {clist(act_coq(a) for a in acts)}" for caught, acts in cl)
        rows.append(f"  (* line {ln} *) mkhandler {cs(tid)} {cls_}")
    o.append(";\n".join(rows))
    o.append("].")
    o.append("")
    o.append("Definition gen_sites : list site := [")
    rows = []
    for name, chain, phase in T["sites"]:
        rows.append(f"  mksite {cs(name)} {frames_coq(chain)} {'PLoop' if phase == 'loop' else 'PPtr'}")
    o.append(";\n".join(rows))
    o.append("].")
    o.append("")
    o.append("Definition gen_init_steps : list init_step := " + clist(
        (f"ParseTry {cs(s[1])}" if s[0] == "ParseTry" else f"NoneCheck {cs(s[1])}" if s[0] == "NoneCheck"
         else f"Guard {cs(s[1])}" if s[0] == "Guard" else s[0]) for s in T["init_steps"]) + ".")
    o.append("")
    o.append("(* raise statements: site, function, class, local try statements around the raise (innermost first) *)")
    o.append("Definition gen_raise_rows : list raise_row := [")
    seen = set()
    rows = []
    for site, fk, c, lc, ln in T["raise_rows"]:
        key = (site, fk, c, tuple(lc))
        if key in seen:
            continue
        seen.add(key)
        rows.append(f"  mkraise {cs(site)} {cs(fk)} {cs(c)} {frames_coq(lc)}")
    o.append(";\n".join(rows))
    o.append("].")
    o.append("")
    o.append("(* leak-prone primitive operations: site, function, kind, local try statements (innermost first), count *)")
    o.append("Definition gen_prim_rows : list prim_row := [")
    cnt = {}
    order = []
    for site, fk, k, lc, ln, inh in T["prim_rows"]:
        key = (site, fk, k, tuple(lc))
        if key not in cnt:
            cnt[key] = 0
            order.append(key)
        cnt[key] += 1
    rows = []
    for key in order:
        site, fk, k, lc = key
        rows.append(f"  mkprim {cs(site)} {cs(fk)} {k} {frames_coq(list(lc))} {cnt[key]}")
    o.append(";\n".join(rows))
    o.append("].")
    o.append("")
    o.append("Definition gen_tables : tables := mktables gen_hierarchy gen_handlers gen_sites gen_init_steps "
             "gen_raise_rows gen_prim_rows.")
    o.append("")
    o.append("(* `only allowed once` rules: function, the expression tested for membership in the set of inputs seen, the "
             "expression added to that set (locals assigned once are expanded), the class raised *)")
    o.append("Definition gen_once_rules : list once_rule := " + clist(
        f"mkonce {cs(k)} {cs(t)} {cs(a)} {cs(c)}" for k, t, a, c in T.get("once_rules", [])) + ".")
    o.append("")
    o.append("(* the same hierarchy and site chains in the wire format the harness sends to the extracted model *)")
    o.append("Definition gen_hierarchy_wire : string := " + cs(hier_wire(H)) + ".")
    o.append("Definition gen_site_wires : list (string * string) := [")
    o.append(";\n".join(f"  ({cs(name)}, {cs(chain_wire(chain, hmap))})" for name, chain, phase in T["sites"]))
    o.append("].")
    return "\n".join(o) + "\n"


def regenerate():
    """rewrite coq/Gen/Errors.v when its content changed; on a translation failure the file is removed
    (fail closed) and the error re-raised"""
    try:
        T = collect()
        text = render(T)
    except Exception:
        for ext in ("", "o", "os", "ok"):
            try:
                os.remove(GEN + ext if ext else GEN)
            except FileNotFoundError:
                pass
        raise
    vlib.write_if_changed(GEN, text)
    return T


if __name__ == "__main__":
    T = regenerate()
    print("hierarchy", len(T["hierarchy"]), "handlers", len(T["handlers"]), "sites", len(T["sites"]),
          "raise rows", len(T["raise_rows"]), "prim rows", len(T["prim_rows"]), "reach", T["reach"])
