"""Trigger predicates of the open C10 findings: there is none at present.

The four findings this module used to recognise (blank text reaching the limit before a '$'; a C beyond column 5
taken for a comment line; a hyphenated word split at the limit; tabs measured as one column) were repaired by
/repo commits 6283f05 and c3da1f2 and are listed in findings/C10.fixed.json; their inputs are regression cases in
corpus/C10/fixed-*.json: if one of them fails again the check reports a VIOLATION."""

TRIGGERS = []
