"""Trigger predicates of the open C10 findings (string cases of harness/props/C10.py).

Each predicate decides from the *case* (W, first, the source line): the triggering feature is present, and the
same line with only that feature removed passes the oracle, so that another violation on the same line is still
reported."""
import re


def _line_case(case):
    c = case.get("case")
    if not c or "string" not in c or not str(case.get("kind", "")).startswith("string-"):
        return None
    if "\n" in c["string"]:
        return None
    return c


def _passes(c, line, depth=2):
    """the line with the triggering feature removed passes — or fails in a way that is itself explained by an open
    finding (a line can carry two known defects); any other failure keeps the case a violation"""
    import props.C10 as C10
    r = C10.string_oracle_line(line, c["W"], c["first"], c.get("before"))
    if r is None:
        return True
    if depth <= 0:
        return False
    case2 = {"kind": r[0], "detail": r[1], "case": dict(c, string=line), "_depth": depth - 1}
    return any(t(case2, {}) for t in TRIGGERS)


def _ref(c):
    return (("" if c["first"] else " " * 5) + c["string"]).expandtabs(8)


def C10_blank_data_reaches_limit(case, params):
    """F-C10-blank-data-reaches-limit: nothing but blanks before the first '$', and they reach the column limit."""
    c = _line_case(case)
    if c is None or case["kind"] != "string-line-too-long" or "\t" in c["string"]:
        return False
    line = c["string"]
    if "$" not in line:
        return False
    data = line.split("$", 1)[0]
    ii = 0 if c["first"] else 5
    if data.strip() or ii + len(data) < c["W"]:
        return False
    return _passes(c, " " * 5 + line[len(data):], case.get("_depth", 2))


def C10_c_beyond_column_5(case, params):
    """F-C10-c-beyond-column-5: the written line has its 'c ' after five or more blanks (a continuation line that
    carries data for MCNP) but utilities.is_comment takes it for a comment line."""
    c = _line_case(case)
    if c is None or "\t" in c["string"].lstrip("\t"):
        return False
    ref = _ref(c)
    m = re.match(r"^( {5,})[cC] ", ref)
    if not m or len(ref) <= c["W"]:
        return False
    # the same text with another first word is wrapped correctly
    line = c["string"]
    k = len(line) - len(line.lstrip())
    return _passes(c, line[:k] + "x" + line[k + 1:], case.get("_depth", 2))


def C10_hyphenated_token_split(case, params):
    """F-C10-hyphenated-token-split: a data token with letters around a hyphen ('be-met.40t') is broken at the
    hyphen by textwrap (break_on_hyphens)."""
    c = _line_case(case)
    if c is None or case["kind"] != "string-data-tokens" or "\t" in c["string"]:
        return False
    data = c["string"].split("$", 1)[0]
    if not re.search(r"\S-+\S", data):        # a hyphen (or a run of them) inside a token
        return False
    return _passes(c, data.replace("-", "_") + c["string"][len(data):], case.get("_depth", 2))


def C10_tab_columns(case, params):
    """F-C10-tab-columns: the line contains a tab; _wrap_line measures and splits the raw text, textwrap and MCNP
    the text with the tabs expanded."""
    c = _line_case(case)
    if c is None or "\t" not in c["string"]:
        return False
    return _passes(c, c["string"].expandtabs(8), case.get("_depth", 2))


TRIGGERS = [C10_blank_data_reaches_limit, C10_c_beyond_column_5, C10_hyphenated_token_split, C10_tab_columns]
