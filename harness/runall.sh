#!/bin/sh
# runall.sh [seed] [tier] [props...] : run the listed (default: claimed) checks, 4 at a time; summary on stdout
SEED=${1:-1}; TIER=${2:-quick}; shift 2 2>/dev/null
HERE="$(cd "$(dirname "$0")/.." && pwd)"
PROPS="$@"; [ -z "$PROPS" ] && PROPS=$(cat $HERE/harness/claimed.txt)
mkdir -p /tmp/runall
echo $PROPS | tr ' ' '\n' | xargs -P 4 -I{} sh -c "cd $HERE && VERIF_SEED=$SEED timeout 3000 ./check {} --tier $TIER > /tmp/runall/{}.log 2>&1; echo \"{} rc=\$? \$(grep -c KNOWN-FINDING /tmp/runall/{}.log) known; \$(grep -v KNOWN /tmp/runall/{}.log | tail -1 | cut -c1-200)\""
