"""gen.py — generator of MCNP problems from the core grammar G_core (DESIGN.md §5.2) and its
layout closure L (§5.3).  A problem is generated as *logical cards* (token lists) and then
rendered to text; the same logical problem can be rendered in many layouts (C11), and the
token lists are what the oracles compare against.

A card is a list of items:
   ("t", text)          a token; a separator (>= 1 blank, or a line break ...) precedes it
   ("g", text)          a token glued to the previous one (no separator required, e.g. ')' ':' )
   ("eq",)              key/value separator: '=' | blanks | ' = '
Every random choice comes from the rng passed in.
"""
import random
import re

PARTICLES_COMMON = ["n", "p", "e"]
ALL_PARTICLES = list("npe|quvfhl+-xyo!<>g/zk%^b_~cw@dtsa*?#")

SURF_TYPES = {
    "p": [4], "px": [1], "py": [1], "pz": [1], "so": [1], "s": [4], "sx": [2], "sy": [2], "sz": [2],
    "c/x": [3], "c/y": [3], "c/z": [3], "cx": [1], "cy": [1], "cz": [1],
    "k/x": [4, 5], "k/y": [4, 5], "k/z": [4, 5], "kx": [2, 3], "ky": [2, 3], "kz": [2, 3],
    "sq": [10], "gq": [10], "tx": [6], "ty": [6], "tz": [6],
    "box": [12], "rpp": [6], "sph": [4], "rcc": [7], "rhp": [15], "hex": [15], "rec": [12],
    "trc": [8], "ell": [7], "wed": [12],
}
COMMON_SURF = ["px", "py", "pz", "so", "cz", "cx", "c/z", "s", "p", "cy", "sx"]


# xM shortcuts: written since 4296afb in surface cards; in the data block an xM token is still read as a word (an
# open C08 finding), so the default stays off and only surface cards get them, on request
# (gen_problem option multiply_surfaces; no random draw is added when the option is not set)
MULTIPLY_OK = False


def fmt_real(rng, x=None, positive=False, style=None):
    """spell a real number in one of the G_core REAL styles"""
    if x is None:
        x = rng.choice([rng.uniform(0.01, 10), rng.uniform(0.1, 1000), float(rng.randint(1, 50)),
                        rng.uniform(1e-6, 1e-2), rng.uniform(1e3, 1e8)])
        if not positive and rng.random() < 0.3:
            x = -x
    style = style or rng.choice(["fixed", "fixed", "int", "sci", "SCI", "fortran", "plus", "lead0", "dot"])
    neg = x < 0
    a = abs(x)
    if style == "int":
        s = str(max(1, int(round(a)))) if a >= 1 else "%.3f" % a
    elif style == "fixed":
        s = ("%." + str(rng.randint(1, 6)) + "f") % a
    elif style == "sci":
        s = ("%." + str(rng.randint(1, 6)) + "e") % a
    elif style == "SCI":
        s = (("%." + str(rng.randint(1, 5)) + "E") % a)
    elif style == "fortran":
        s = (("%." + str(rng.randint(1, 5)) + "e") % a).replace("e", "")
    elif style == "plus":
        s = ("%." + str(rng.randint(1, 4)) + "f") % a
        if parse_real(s) == 0.0:
            s = "0.5"
        return ("-" if neg else "+") + s
    elif style == "lead0":
        s = "0" + ("%." + str(rng.randint(1, 4)) + "f") % a
    else:  # dot
        s = ("%d." % int(a)) if a >= 1 else (".%03d" % int(a * 1000))
    if parse_real(s) == 0.0:          # never spell a zero by rounding: zero radii / densities are not valid input
        s = "0.5"
    return ("-" if neg else "") + s


def T(x):
    return ("t", str(x))


def G(x):
    return ("g", str(x))


EQ = ("eq",)


# ----------------------------------------------------------------------------- geometry
def gen_geom(rng, surfs, cells_for_complement, depth):
    """-> (items, ast)   ast as in spec.parse_geometry"""
    def leaf():
        if cells_for_complement and rng.random() < 0.08:
            c = rng.choice(cells_for_complement)
            return [T("#%d" % c)], ("cell", c)
        s = rng.choice(surfs)
        sign = rng.choice([-1, 1])
        txt = ("-" if sign < 0 else ("+" if rng.random() < 0.15 else "")) + str(s)
        return [T(txt)], ("leaf", sign, s)

    def fact(d):
        r = rng.random()
        if d <= 0 or r < 0.55:
            return leaf()
        if r < 0.85:
            it, a = expr(d - 1)
            return [T("(")] + glue_first(it) + [G(")")], a
        it, a = expr(d - 1)
        return [T("#(")] + glue_first(it) + [G(")")], ("not", a)

    def term(d):
        it, a = fact(d)
        for _ in range(rng.choice([0, 0, 1, 1, 2, 3])):
            it2, b = fact(d)
            it = it + it2
            a = ("and", a, b)
        return it, a

    def expr(d):
        it, a = term(d)
        for _ in range(rng.choice([0, 0, 0, 1, 1, 2])):
            it2, b = term(d)
            it = it + [G(":") if rng.random() < 0.7 else T(":")] + (glue_first(it2) if rng.random() < 0.7 else it2)
            a = ("or", a, b)
        return it, a

    return expr(depth)


def glue_first(items):
    if not items:
        return items
    k = items[0]
    return [("g", k[1])] + items[1:]


# ----------------------------------------------------------------------------- numeric lists
def gen_numlist(rng, n, positive=True, ints=False, shortcuts=True, allow_jump=True, multiply=False):
    """n logical entries -> (items, values) ; values: float | 'J'"""
    items = []
    vals = []
    since = 9          # plain values since the last shortcut (three chained shortcuts are a C12 finding)
    while len(vals) < n:
        left = n - len(vals)
        r = rng.random()
        if since < 2 and r < 0.36:
            r = 0.99
        before = len(items)
        if items and items[-1][1].endswith("m") and r < 0.12:
            r = 0.99                              # 'xM nR' is rejected by the parser (C12 finding)
        if shortcuts and vals and vals[-1] != "J" and r < 0.12 and left >= 1:
            k = rng.randint(1, min(left, 4))
            items.append(T(("%dr" % k) if k > 1 or rng.random() < 0.5 else "r"))
            vals += [vals[-1]] * k
        elif shortcuts and allow_jump and r < 0.2 and left >= 1:
            k = rng.randint(1, min(left, 3))
            items.append(T(("%dj" % k) if k > 1 or rng.random() < 0.5 else "j"))
            vals += ["J"] * k
        elif shortcuts and not ints and vals and vals[-1] != "J" and r < 0.3 and left >= 2:
            k = rng.randint(1, min(left - 1, 4))
            a = vals[-1]
            b = a + rng.choice([1, 2, 5, 10]) * (k + 1)
            if b == 0:
                b = 1.0 * (k + 1)     # 'nI 0' is rejected by the parser (a C12 finding; no random draw is added here)
            items.append(T("%di" % k))
            items.append(T("%g" % b))
            vals += [a + (b - a) * j / (k + 1) for j in range(1, k + 1)] + [b]
        elif shortcuts and (MULTIPLY_OK or multiply) and not ints and vals and vals[-1] != "J" and r < 0.36:
            m = rng.choice([2, 3, 10])          # real multipliers (0.5m) are a C12 finding; see gen_core
            items.append(T("%gm" % m))
            vals.append(vals[-1] * m)
            no_repeat_next = True
        else:
            if ints:
                v = rng.randint(0 if not positive else 1, 9)
                items.append(T(v))
                vals.append(float(v))
            else:
                s = fmt_real(rng, positive=positive)
                items.append(T(s))
                vals.append(parse_real(s))
        if r < 0.36 and len(items) > before and not (items[-1][1][-1].isdigit() and len(items) - before == 1):
            since = 0
        else:
            since += 1
    return items, vals


def parse_real_ok(s):
    try:
        parse_real(s)
        return True
    except ValueError:
        return False


def parse_real(s):
    import re
    try:
        return float(s)
    except ValueError:
        return float(re.sub(r"(\d|\.)([-+])", r"\1e\2", s))


# ----------------------------------------------------------------------------- problem
def gen_problem(rng, opts=None):
    """opts: dict(n_cells, universes(bool), data_block_modifiers(bool), shortcuts(bool), tallies, ...)"""
    o = dict(max_cells=6, universes=True, data_mods=True, shortcuts=True, extras=True, transforms=True,
             complements=True, depth=2, message=True, params=True, materials=True)
    o.update(opts or {})
    P = {"meta": {}}
    ncell = rng.choice([1, 2, 3, 3, 4, 5, 6]) if o["max_cells"] >= 6 else rng.randint(1, o["max_cells"])
    if rng.random() < 0.05 and o["max_cells"] > 10:
        ncell = rng.randint(10, o["max_cells"])
    nsurf = rng.randint(1, max(2, ncell + 2))
    cell_nums = sorted(rng.sample(range(1, 60), ncell))
    surf_nums = sorted(rng.sample(range(1, 80), nsurf))
    if rng.random() < 0.1:
        cell_nums[-1] = rng.choice([99999, 1234567, 100])
    nmat = rng.randint(1, 3) if o["materials"] else 0
    mat_nums = sorted(rng.sample(range(1, 30), nmat))
    ntr = rng.randint(0, 2) if o["transforms"] else 0
    tr_nums = sorted(rng.sample(range(1, 20), ntr))
    particles = rng.choice([["n"], ["n"], ["n", "p"], ["p"], ["n", "p", "e"], ["n", "e"]])
    P["meta"].update(cells=cell_nums, surfaces=surf_nums, materials=mat_nums, transforms=tr_nums,
                     particles=particles)
    # per-cell data placement: cell block or data block
    place = {}
    for k in ("imp", "vol", "u", "fill", "lat"):
        place[k] = "data" if (o["data_mods"] and rng.random() < 0.3) else "cell"
    P["meta"]["place"] = place
    use_univ = o["universes"] and ncell >= 2 and rng.random() < 0.4
    universes = {}
    fills = {}
    if use_univ:
        unum = rng.sample(range(1, 20), rng.randint(1, 2))
        filler = cell_nums[0]
        for c in cell_nums[1:]:
            if rng.random() < 0.6:
                universes[c] = rng.choice(unum)
        used = sorted(set(universes.values()))
        if used:
            fills[filler] = rng.choice(used)
    P["meta"]["universes"] = universes
    P["meta"]["fills"] = fills
    # (only drawn on request, so that the problems generated for everybody else are unchanged)
    joint_imp = bool(o.get("joint_imp_cards")) and place["imp"] == "data" and len(particles) > 1 and rng.random() < 0.5
    P["meta"]["joint_imp"] = joint_imp
    # ---- cells
    cells = []
    geoms = {}
    imps = {}
    vols = {}
    for idx, c in enumerate(cell_nums):
        card = [T(c)]
        if mat_nums and rng.random() < 0.6:
            m = rng.choice(mat_nums)
            card += [T(m), T(fmt_real(rng, positive=rng.random() < 0.5, style=rng.choice(["fixed", "sci", "int", "fortran", "lead0"])))]
        else:
            m = 0
            card += [T(0)]
        comp = [x for x in cell_nums[:idx]] if o["complements"] else []
        g, ast = gen_geom(rng, surf_nums, comp, rng.randint(0, o["depth"]))
        g = [("t", g[0][1])] + g[1:]
        if g[0][1].startswith("#") and len(" ".join(x[1] for x in card)) < 5:
            g = [T("(")] + glue_first(g) + [G(")")]   # a '#' in columns 1-5 means vertical format
        card += g
        geoms[c] = ast
        params = []
        imp = {p: rng.choice([1, 1, 1, 0, 2, 0.5]) for p in particles}
        if joint_imp:
            imp = {p: imp[particles[0]] for p in particles}      # one data-block card 'imp:n,p ...' for all particles
        imps[c] = imp
        if place["imp"] == "cell":
            if len(particles) > 1 and len(set(imp.values())) == 1 and rng.random() < 0.6:
                params.append([T("imp:" + ",".join(particles)), EQ, T(fmt_imp(imp[particles[0]]))])
            else:
                for p in particles:
                    params.append([T("imp:" + p), EQ, T(fmt_imp(imp[p]))])
        if rng.random() < 0.4:
            v = fmt_real(rng, positive=True, style=rng.choice(["fixed", "int", "sci"]))
            if o.get("edge_volumes") and rng.random() < 0.25:
                v = rng.choice(["0", "0", "0.0", "4.2e-12", "6.5e-11"])     # legal: a volume of zero, microscopic volumes
            vols[c] = v
            if place["vol"] == "cell":
                params.append([T("vol"), EQ, T(v)])
        if c in universes and place["u"] == "cell":
            params.append([T("u"), EQ, T(universes[c])])
        if c in fills and place["fill"] == "cell" and o.get("lattice_arrays") and rng.random() < 0.6:
            # a lattice cell filled with an array of universes (only drawn when the option is set, so that the
            # problems generated for everybody else are unchanged): asymmetric shape and contents
            used_u = sorted(set(universes.values()))
            dims = rng.choice([(3, 2, 1), (2, 3, 1), (2, 2, 2), (1, 3, 2), (4, 1, 1), (2, 1, 3)])
            lo = [rng.choice([0, 0, -1]) for _ in dims]
            ranges = ["%d:%d" % (l, l + d - 1) for l, d in zip(lo, dims)]
            n_el = dims[0] * dims[1] * dims[2]
            entries = [rng.choice(used_u) for _ in range(n_el)]
            if len(used_u) > 1 and len(set(entries)) == 1:
                entries[rng.randrange(n_el)] = [u for u in used_u if u != entries[0]][0]
            lat = rng.choice([1, 1, 2])
            params.append([T("lat"), EQ, T(lat)])
            params.append([T("fill"), EQ] + [T(r) for r in ranges] + [T(e) for e in entries])
            P["meta"].setdefault("fill_arrays", {})[c] = {"ranges": ranges, "entries": entries, "lat": lat}
        elif c in fills and place["fill"] == "cell":
            params.append([T("fill"), EQ, T(fills[c])])
        if o["params"] and rng.random() < 0.15:
            params.append([T("tmp"), EQ, T(fmt_real(rng, positive=True, style="sci"))])
        rng.shuffle(params)
        for p in params:
            card += p
        cells.append(card)
    P["meta"].update(geoms=geoms, imps=imps, vols=vols)
    P["cells"] = cells
    # ---- surfaces
    surfaces = []
    sconst = {}
    for s in surf_nums:
        mn = rng.choice(COMMON_SURF) if rng.random() < 0.8 else rng.choice(sorted(SURF_TYPES))
        cnt = rng.choice(SURF_TYPES[mn])
        first = str(s)
        r = rng.random()
        if r < 0.1:
            first = "*" + first
        elif r < 0.15:
            first = "+" + first
        card = [T(first)]
        if tr_nums and rng.random() < 0.25:
            card.append(T(rng.choice(tr_nums)))
        card.append(T(mn if rng.random() < 0.7 else mn.upper()))
        it, vals = gen_numlist(rng, cnt, positive=False, shortcuts=o["shortcuts"] and rng.random() < 0.3,
                               allow_jump=False, multiply=bool(o.get("multiply_surfaces")))
        card += it
        sconst[s] = vals
        gen_idx = []
        k = 0
        for tok in it:
            m_ = re.match(r"^(\d*)(i|ilog)$", tok[1].lower())
            m_r = re.match(r"^(\d*)(r|j)$", tok[1].lower())
            if m_:
                cnt = int(m_.group(1) or 1)
                gen_idx += list(range(k, k + cnt))
                k += cnt
            elif m_r:
                k += int(m_r.group(1) or 1)
            elif tok[1].lower().endswith("m") and parse_real_ok(tok[1][:-1]):
                k += 1
            else:
                k += 1
        if gen_idx:
            P["meta"].setdefault("surface_interpolated", {})[s] = gen_idx
        surfaces.append(card)
    P["surfaces"] = surfaces
    P["meta"]["surface_constants"] = sconst
    # ---- data
    data = []
    data.append([T("mode")] + [T(p) for p in particles])
    mat_zaids = {}
    mat_laws = {}
    for m in mat_nums:
        card = [T("m%d" % m)]
        mat_zaids[m] = []
        for _ in range(rng.randint(1, 4)):
            z = rng.choice([1001, 8016, 92235, 92238, 6000, 26056, 40090, 13027])
            lib = rng.choice([".80c", ".70c", ".00c", ".710nc"]) if not o.get("nolib") else rng.choice(["", ".80c"])
            card += [T("%d%s" % (z, lib)), T(fmt_real(rng, positive=True, style=rng.choice(["fixed", "sci", "fortran", "int"])))]
            mat_zaids[m].append("%d%s" % (z, lib))
        if o.get("mass_fraction_materials") and rng.random() < 0.35:
            # a material given in MASS fractions: every fraction negative
            card = [card[0]] + [tok if k % 2 == 0 else T("-" + tok[1].lstrip("+")) for k, tok in enumerate(card[1:])]
            P["meta"].setdefault("material_mass", []).append(m)
        data.append(card)
        if rng.random() < 0.2:
            data.append([T("mt%d" % m), T(rng.choice(["lwtr.10t", "grph.20t", "poly.01t"]))])
            mat_laws[m] = data[-1][1][1]
    # (meta only: no random draw, the generated problems are unchanged)
    P["meta"]["material_zaids"] = mat_zaids
    P["meta"]["material_laws"] = mat_laws
    tr_rot = {}
    for t in tr_nums:
        card = [T(("*" if rng.random() < 0.2 else "") + "tr%d" % t)]
        if o.get("tr_forms"):
            # every form MCNP knows: 0, 3, 5, 6 or 9 entries of the rotation matrix; sometimes the identity-like
            # matrix of a 90 degree turn with its 6.123e-17 next to a repeated displacement '0 2r'
            # option tr_flag: also the full form of 13 entries, the last one the direction flag (+-1)
            n = rng.choice([3, 3, 6, 8, 9, 12, 13, 13] if o.get("tr_flag") else [3, 3, 6, 8, 9, 12])
            if n == 12 and o.get("tr_tiny") and rng.random() < 0.4:
                it = [T(x) for x in ["0", "2r", "6.123e-17", "1", "0", "-1", "6.123e-17", "0", "0", "0", "1"]]
            elif n == 13:
                it, _ = gen_numlist(rng, 12, positive=False, shortcuts=False)
                it = it + [T(rng.choice(["-1", "-1", "1", "+1"]))]
                P["meta"].setdefault("tr_flag", {})[t] = it[-1][1]
            else:
                it, _ = gen_numlist(rng, n, positive=False, shortcuts=False)
        else:
            n = rng.choice([3, 3, 12])
            it, _ = gen_numlist(rng, n, positive=False, shortcuts=False)
        tr_rot[t] = min(9, n - 3)
        data.append(card + it)
    P["meta"]["tr_rotation_entries"] = tr_rot
    ncell_entries = len(cell_nums)
    if place["imp"] == "data" and joint_imp:
        vals = [imps[c][particles[0]] for c in cell_nums]
        data.append([T("imp:" + ",".join(particles))] + compress(rng, vals, o["shortcuts"]))
    elif place["imp"] == "data":
        for p in particles:
            vals = [imps[c][p] for c in cell_nums]
            data.append([T("imp:" + p)] + compress(rng, vals, o["shortcuts"]))
    if place["vol"] == "data" and vols and o.get("edge_volumes") and rng.random() < 0.4:
        # a data-block VOL card of zeros, or of microscopic volumes with repeat shortcuts next to other tiny values
        # (the list of such a card is rebuilt on every write)
        if rng.random() < 0.3:
            vals = ["0" for c in cell_nums]
            for c in cell_nums:
                vols[c] = "0"
            data.append([T("vol")] + [T(v) for v in vals[:-1]] + [T(rng.choice(["0", "j"]) if len(vals) > 1 else "0")])
            if data[-1][-1][1] == "j":
                vols.pop(cell_nums[-1])
        else:
            tiny = [4.2e-12, 6.5e-11, 3.3e-10, 8.0e-13, 2.0e-10]
            vals = []
            for c in cell_nums:
                vals.append(vals[-1] if vals and rng.random() < 0.5 else rng.choice(tiny))
            for c, v in zip(cell_nums, vals):
                vols[c] = "%g" % v
            items = []
            k = 0
            while k < len(vals):
                j = k
                while j + 1 < len(vals) and vals[j + 1] == vals[k]:
                    j += 1
                items.append(T("%g" % vals[k]))
                if j > k:
                    items.append(T("%dr" % (j - k)))
                k = j + 1
            data.append([T("vol")] + items)
    elif place["vol"] == "data" and vols and o.get("vol_interpolate") and len(cell_nums) >= 3 and rng.random() < 0.5:
        # a data-block VOL card with an interpolate shortcut: 'vol 2 3i 6' (an edit of an interior cell's volume breaks
        # the shortcut up; the values it generated are then written one by one)
        n = len(cell_nums)
        k = rng.randint(1, n - 2)                      # generated entries
        i0 = rng.randint(0, n - k - 2)                 # index of the start value
        a = rng.choice([2, 1, 0.5, 10])
        step = rng.choice([1, 0.5, 2.5, 0.25])
        card = [T("vol")]
        for idx, c in enumerate(cell_nums):
            if idx < i0 or idx > i0 + k + 1:
                card.append(T(vols[c]) if c in vols else T("j"))
            elif idx == i0:
                card += [T("%g" % a), T("%di" % k)]
                vols[c] = "%g" % a
            elif idx == i0 + k + 1:
                card.append(T("%g" % (a + (k + 1) * step)))
                vols[c] = "%g" % (a + (k + 1) * step)
            else:
                vols[c] = "%g" % (a + (idx - i0) * step)
        P["meta"]["vol_interpolated"] = True
        data.append(card)
    elif place["vol"] == "data" and vols:
        card = [T("vol")]
        for c in cell_nums:
            card.append(T(vols[c]) if c in vols else T("j"))
        data.append(card)
    if place["u"] == "data" and universes:
        data.append([T("u")] + [T(universes.get(c, 0) if c in universes else "j") for c in cell_nums])
    if place["fill"] == "data" and fills:
        data.append([T("fill")] + [T(fills[c]) if c in fills else T("j") for c in cell_nums])
    if o["extras"]:
        ex = []
        if rng.random() < 0.5:
            ex.append([T("nps"), T(rng.choice(["1000", "1e6", "5000000"]))])
        if rng.random() < 0.3:
            tn = rng.choice([4, 14, 24])
            p = rng.choice(particles)
            ex.append([T("f%d:%s" % (tn, p))] + [T(c) for c in rng.sample(cell_nums, min(len(cell_nums), rng.randint(1, 3)))])
            if rng.random() < 0.5:
                it, _ = gen_numlist(rng, rng.randint(2, 6), positive=True, shortcuts=o["shortcuts"], allow_jump=False)
                ex.append([T("e%d" % tn)] + it)
            if rng.random() < 0.3:
                ex.append([T("fc%d tally comment text" % tn)])
        if rng.random() < 0.3:
            ex.append([T("sdef"), T("pos"), EQ, T("0"), T("0"), T("0"), T("erg"), EQ, T(fmt_real(rng, positive=True, style="fixed"))])
        if rng.random() < 0.2:
            ex.append([T("kcode"), T("1000"), T("1.0"), T("10"), T("50")])
            ex.append([T("ksrc"), T("0"), T("0"), T("0")])
        if rng.random() < 0.2:
            ex.append([T("cut:" + rng.choice(particles)), T("j"), T(fmt_real(rng, positive=True, style="sci"))])
        if rng.random() < 0.2:
            ex.append([T("print"), T("10"), T("110"), T("-160")])
        if rng.random() < 0.15:
            ex.append([T("phys:" + rng.choice(particles)), T("20"), T("0"), T("0")])
        rng.shuffle(ex)
        data += ex
    body = data[1:]
    rng.shuffle(body)
    # MT must follow its M in our generator (MCNP does not care; keeps references simple)
    data = [data[0]] + body
    P["data"] = data
    P["title"] = rng.choice(["verif generated problem", "A title with  two blanks", "title $ not a comment here",
                             "c this title looks like a comment", "T" * rng.randint(1, 60)])
    P["message"] = (["MESSAGE: " + rng.choice(["outp=x.o", "runtpe=a.r xsdir=b"]),] +
                    ([" continued message line"] if rng.random() < 0.3 else [])) if (o["message"] and rng.random() < 0.2) else None
    return P


def fmt_imp(v):
    return ("%g" % v) if v != int(v) else str(int(v))


def compress(rng, vals, shortcuts):
    """render a list of numbers, optionally with nR shortcuts for runs"""
    items = []
    i = 0
    while i < len(vals):
        v = vals[i]
        items.append(T(fmt_imp(v)))
        j = i + 1
        while j < len(vals) and vals[j] == v:
            j += 1
        run = j - i - 1
        if shortcuts and run >= 1 and rng.random() < 0.6:
            items.append(T("%dr" % run))
            i = j
        else:
            i += 1
    return items


# ----------------------------------------------------------------------------- rendering
PLAIN = dict(seps="single", breaks="indent", comments=0.0, case="keep", eol="\n", eq="=", width=78, tabs=False,
             lead_comments=0.0, amp=False, dollar=0.0)


def layout_opts(rng, wild=False, width=78):
    if not wild:
        return dict(PLAIN, comments=rng.choice([0, 0, 0.1]), dollar=rng.choice([0, 0.05, 0.15]),
                    lead_comments=rng.choice([0, 0.2]), width=width)
    return dict(seps=rng.choice(["single", "multi", "tab"]), breaks=rng.choice(["indent", "amp", "mixed"]),
                comments=rng.choice([0, 0.1, 0.3]), dollar=rng.choice([0, 0.1, 0.3]),
                lead_comments=rng.choice([0, 0.3]), case=rng.choice(["keep", "upper", "random"]),
                eol=rng.choice(["\n", "\n", "\r\n"]), eq=rng.choice(["=", "mixed", "blank"]),
                width=rng.choice([40, 60, 78, width]), tabs=rng.random() < 0.2, amp=True)


def render_card(rng, card, L, first_col_ok=True):
    """-> list of physical lines"""
    lines = []
    cur = ""
    width = L["width"]

    def sep():
        if L["seps"] == "single":
            return " "
        if L["seps"] == "multi":
            return " " * rng.choice([1, 1, 2, 3, 6])
        return rng.choice([" ", " ", "\t", "  "])

    def casef(s):
        if L["case"] == "upper":
            return s.upper()
        if L["case"] == "random":
            return "".join(ch.upper() if rng.random() < 0.5 else ch.lower() for ch in s)
        return s

    def newline(cur):
        """break the line; returns the new current prefix"""
        style = L["breaks"]
        if style == "mixed":
            style = rng.choice(["indent", "amp"])
        if rng.random() < L["dollar"]:
            cur += " $ " + rng.choice(["a comment", "surf 5 here", "x=1 (not data)", "trailing"])
            style = "indent"
        if style == "amp" and "$" not in cur:
            lines.append(cur + " &")
            nxt = " " * rng.choice([0, 1, 3, 5, 7]) if False else " " * rng.choice([5, 6, 8])
        else:
            lines.append(cur)
            nxt = " " * rng.choice([5, 5, 6, 8, 10])
        while rng.random() < L["comments"]:
            lines.append(rng.choice(["c interior comment", "C", "c     spaced comment", "  c indented comment"]))
        return nxt

    first = True
    i = 0
    n = len(card)
    pending_eq = False
    for idx, it in enumerate(card):
        kind = it[0]
        if kind == "eq":
            pending_eq = True
            continue
        txt = casef(it[1])
        if first:
            cur = txt
            first = False
            continue
        if pending_eq:
            mode = L["eq"]
            if mode == "mixed":
                mode = rng.choice(["=", "blank", " = ", "= "])
            s = {"=": "=", "blank": sep(), " = ": " = ", "= ": "= "}[mode]
            pending_eq = False
            glue = True
        elif kind == "g":
            s = "" if rng.random() < 0.8 else " "
            glue = True
        else:
            s = sep()
            glue = False
        piece = s + txt
        if len((cur + piece).expandtabs(8)) > width - 2 and cur.strip():
            if glue and s.strip() == "=":
                cur += "="
                piece = txt
            elif glue and s == "":
                piece = txt
            cur = newline(cur)
            cur += piece.lstrip(" \t") if not glue or s.strip() == "" else piece.lstrip(" \t")
        elif (not glue) and rng.random() < 0.04 and L["breaks"]:
            cur = newline(cur)
            cur += txt
        else:
            cur += piece
    if rng.random() < L["dollar"]:
        cur += " $ " + rng.choice(["end comment", "last one"])
    lines.append(cur)
    return lines


def render(rng, P, L=None):
    L = L or PLAIN
    out = []
    if P.get("message"):
        out += P["message"]
        out.append("")
    out.append(P["title"])
    for bi, block in enumerate((P["cells"], P["surfaces"], P["data"])):
        for card in block:
            while rng.random() < L["lead_comments"]:
                out.append(rng.choice(["c leading comment", "C another one", "c"]))
            out += render_card(rng, card, L)
        out.append("")
    return L["eol"].join(out) + L["eol"]


def card_tokens(card):
    """logical tokens of a card (upper case), '=' dropped, glue ignored"""
    return [it[1].upper() for it in card if it[0] != "eq"]
