"""Entry point: ./check Cxx [--tier quick|thorough] [--replay file]"""
import argparse
import importlib
import os
import sys
import traceback

sys.path.insert(0, os.path.dirname(os.path.abspath(__file__)))
import vlib


def main():
    ap = argparse.ArgumentParser()
    ap.add_argument("prop")
    ap.add_argument("--tier", default=os.environ.get("VERIF_TIER", "quick"))
    ap.add_argument("--replay", default=None)
    a = ap.parse_args()
    tier = a.tier if a.tier in ("quick", "thorough") else "quick"
    try:
        seed = int(os.environ.get("VERIF_SEED", "0"))
    except ValueError:
        seed = 0
    mod = importlib.import_module(f"props.{a.prop}")
    ctx = vlib.Ctx(a.prop, tier, seed, replay=bool(a.replay))
    if a.replay:
        rc = mod.replay(ctx, a.replay)
        sys.exit(rc)
    try:
        rc = mod.run(ctx)
    except Exception:
        # the machinery itself failed: that is not a verdict about the property, but it
        # must not look like a pass either
        traceback.print_exc()
        print(f"CHECK-ERROR property={a.prop}: harness failure (see traceback)")
        sys.exit(2)
    sys.exit(rc)


if __name__ == "__main__":
    main()
