"""setup_cmd: build every .v of the development (full .vo build) and every extracted model binary."""
import os
import sys

import vlib


def main():
    os.makedirs(vlib.BUILD, exist_ok=True)
    # Gen/*.v are regenerated from /repo before the build (and again by every check)
    try:
        import translate
        translate.regenerate_all()
    except ImportError:
        pass
    files = vlib.coq_files()
    targets = [f[:-2] + ".vo" for f in files]
    ok, log = vlib.coq_make(targets, timeout=3000, keep_going=True)
    sys.stdout.write(log[-3000:])
    if not ok:
        # a file of a property that is not claimed may be work in progress; the build of every
        # claimed property's obligations is what setup must deliver (each check rebuilds and audits its own)
        import json
        with open(os.path.join(vlib.VERIF, "MANIFEST.json")) as fh:
            claimed = [c["property_id"] for c in json.load(fh)["checks"]]
        missing = [p for p in claimed
                   if not os.path.exists(os.path.join(vlib.COQ, "Properties", p + ".vo"))]
        if missing:
            print("SETUP: coq build failed for claimed properties", missing)
            sys.exit(1)
        print("SETUP: some unclaimed files did not build (see log above)")
    for f in files:
        if f.startswith("Model/") and f != "Model/Wire.v":
            name = os.path.basename(f)[:-2]
            src = open(os.path.join(vlib.COQ, f)).read()
            if f"run_{name}" in src and os.path.exists(os.path.join(vlib.COQ, f[:-2] + ".vo")):
                try:
                    p = vlib.build_model(name)
                    print("built", p)
                except RuntimeError as e:
                    print("SETUP: model binary", name, "not built:", str(e)[-500:])
    print("SETUP: ok")


if __name__ == "__main__":
    main()
