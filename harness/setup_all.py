"""setup_cmd: build every .v of the development (full .vo build) and every extracted model binary."""
import os
import sys

import vlib


def main():
    os.makedirs(vlib.BUILD, exist_ok=True)
    # Gen/*.v are regenerated from /repo before the build (and again by every check)
    try:
        import translate
        translate.regenerate_all()
    except ImportError:
        pass
    files = vlib.coq_files()
    targets = [f[:-2] + ".vo" for f in files]
    ok, log = vlib.coq_make(targets, timeout=3000)
    sys.stdout.write(log[-3000:])
    if not ok:
        print("SETUP: coq build failed")
        sys.exit(1)
    for f in files:
        if f.startswith("Model/") and f != "Model/Wire.v":
            name = os.path.basename(f)[:-2]
            src = open(os.path.join(vlib.COQ, f)).read()
            if f"run_{name}" in src:
                p = vlib.build_model(name)
                print("built", p)
    print("SETUP: ok")


if __name__ == "__main__":
    main()
