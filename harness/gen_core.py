"""gen_core.py — sentences of the core grammar G_core (DESIGN.md section 5.2) closed under layout (5.3).

A sentence is a *shape*: a JSON-able tree (nested lists) mirroring the Coq inductive `shape` of
coq/Model/CoreGrammar.v.  Two independent renderings exist: `toks(shape)` here (a list of (class, text)) and
`gen` in Coq, reached through `prog(shape)` (the postfix program understood by run_CoreGrammar); the check
compares them token by token, so the rendering is under correspondence.

part 1 (this file, top): toks / prog / apply_mask      part 2: the random generator `Gen`
"""
import random

NL = "\n"


def hx(s):
    return s.encode("latin-1").hex()


# ----------------------------------------------------------------------------- reals
def real(sign="n", i="1", frac=None, exp=None):
    return ["r", sign, i, frac, exp]


def sign_text(s):
    return {"n": "", "p": "+", "m": "-"}[s]


def real_text(r):
    _, s, i, fr, ex = r
    t = sign_text(s) + i + ("" if fr is None else "." + fr)
    if ex is not None:
        mk, es, ed = ex
        if mk == "e":
            t += "e" + sign_text(es) + ed
        elif mk == "E":
            t += "E" + sign_text(es) + ed
        else:
            t += ("-" if es == "m" else "+") + ed
    return t


def real_zero(r):
    return set(r[2]) <= {"0"} and (r[3] is None or set(r[3]) <= {"0"})


def num_tok(r):
    return ("NULL" if real_zero(r) else "NUMBER", real_text(r))


def real_prog(r):
    _, s, i, fr, ex = r
    if ex is None:
        e = "-:n:"
    else:
        e = "%s:%s:%s" % ({"e": "e", "E": "E", "f": "f"}[ex[0]], ex[1], ex[2])
    return "r:%s:%s:%s:%s" % (s, i, "-" if fr is None else fr, e)


# ----------------------------------------------------------------------------- padding
def cline_tok(b):
    return ("COMMENT", "c " + b) if b is not None else ("COMMENT", "c" + NL)


def sp_tok(s):
    return [("SPACE", s)] if s else []


def comment_rest(pre, cs, last):
    out = []
    for ind, b in cs:
        out += sp_tok(pre + " " * ind)
        out.append(cline_tok(b))
        pre = NL if b is not None else ""
    return out + sp_tok(pre + last)


def pad_toks(p):
    k = p[0]
    if k == "sp":
        return [("SPACE", " " * (p[1] + 1))]
    if k == "tab":
        return [("SPACE", "\t" * (p[1] + 1))]
    if k == "br":
        return [("SPACE", " " * p[1] + NL + " " * (5 + p[2]))]
    if k == "dl":
        return [("SPACE", " " * (p[1] + 1)), ("DOLLAR_COMMENT", "$" + p[2]), ("SPACE", NL + " " * (5 + p[3]))]
    if k == "de":
        return [("SPACE", " " * (p[1] + 1)), ("DOLLAR_COMMENT", "$" + p[2])]
    if k == "cm":
        n, cs, m = p[1], p[2], p[3]
        if not cs:
            return [("SPACE", " " * n + NL + " " * (5 + m))]
        ind, b = cs[0]
        return [("SPACE", " " * n + NL + " " * ind), cline_tok(b)] + comment_rest(NL if b is not None else "", cs[1:], " " * (5 + m))
    if k == "am":
        return [("SPACE", " " * (p[1] + 1)), ("&", "&"), ("SPACE", NL + " " * p[2])]
    if k == "ld":
        cs, m = p[1], p[2]
        ind, b = cs[0]
        return sp_tok(" " * ind) + [cline_tok(b)] + comment_rest(NL if b is not None else "", cs[1:], " " * m)
    raise ValueError(p)


def opad_toks(p):
    return pad_toks(p) if p is not None else []


def clines_prog(cs):
    return ",".join("%d.%s" % (ind, "-" if b is None else hx(b)) for ind, b in cs) if cs else "-"


def pad_prog(p):
    k = p[0]
    if k in ("sp", "tab"):
        return ["%s:%d" % (k, p[1])]
    if k == "br":
        return ["br:%d:%d" % (p[1], p[2])]
    if k == "dl":
        return ["dl:%d:%s:%d" % (p[1], hx(p[2]), p[3])]
    if k == "de":
        return ["de:%d:%s" % (p[1], hx(p[2]))]
    if k == "cm":
        return ["cm:%d:%d:%s" % (p[1], p[3], clines_prog(p[2]))]
    if k == "am":
        return ["am:%d:%d" % (p[1], p[2])]
    if k == "ld":
        return ["ld:%d:%s" % (p[2], clines_prog(p[1]))]
    raise ValueError(p)


def opad_prog(p):
    return pad_prog(p) + ["some"] if p is not None else ["none"]


# ----------------------------------------------------------------------------- geometry
def fact_toks(f):
    k = f[0]
    if k == "leaf":
        return [num_tok(f[1])]
    if k == "ccell":
        return [("COMPLEMENT", "#"), num_tok(f[1])]
    if k == "cpar":
        return [("COMPLEMENT", "#"), ("(", "(")] + opad_toks(f[1]) + expr_toks(f[2]) + [(")", ")")]
    if k == "par":
        return [("(", "(")] + opad_toks(f[1]) + expr_toks(f[2]) + [(")", ")")]
    raise ValueError(f)


def term_toks(t):
    if t[0] == "t1":
        return fact_toks(t[1])
    return term_toks(t[1]) + opad_toks(t[2]) + fact_toks(t[3])


def expr_toks(e):
    if e[0] == "e1":
        return term_toks(e[1]) + opad_toks(e[2])
    return expr_toks(e[1]) + [(":", ":")] + opad_toks(e[2]) + term_toks(e[3]) + opad_toks(e[4])


def fact_prog(f):
    k = f[0]
    if k in ("leaf", "ccell"):
        return [real_prog(f[1]), k]
    return opad_prog(f[1]) + expr_prog(f[2]) + [k]


def term_prog(t):
    if t[0] == "t1":
        return fact_prog(t[1]) + ["t1"]
    return term_prog(t[1]) + opad_prog(t[2]) + fact_prog(t[3]) + ["tand"]


def expr_prog(e):
    if e[0] == "e1":
        return term_prog(e[1]) + opad_prog(e[2]) + ["e1"]
    return expr_prog(e[1]) + opad_prog(e[2]) + term_prog(e[3]) + opad_prog(e[4]) + ["eor"]


# ----------------------------------------------------------------------------- numeric lists
def onat(n):
    return "" if n is None else str(n)


def nitem_toks(i):
    k = i[0]
    if k == "num":
        return [num_tok(i[1])]
    if k == "j":
        return [("NUM_JUMP" if i[1] is not None else "JUMP", onat(i[1]) + "j")]
    if k == "rep":
        return [("NUM_REPEAT" if i[1] is not None else "REPEAT", onat(i[1]) + "r")]
    if k == "mul":
        return [("NUM_MULTIPLY", real_text(i[1]) + "m")]
    if k == "int":
        return [("NUM_INTERPOLATE" if i[1] is not None else "INTERPOLATE", onat(i[1]) + "i")] + pad_toks(i[2]) + [num_tok(i[3])]
    if k == "log":
        return [("NUM_LOG_INTERPOLATE" if i[1] is not None else "LOG_INTERPOLATE", onat(i[1]) + "ilog")] + pad_toks(i[2]) + [num_tok(i[3])]
    raise ValueError(i)


def nitem_prog(i):
    k = i[0]
    if k == "num":
        return [real_prog(i[1]), "num"]
    if k in ("j", "rep"):
        return ["%s:%s" % (k, "-" if i[1] is None else i[1])]
    if k == "mul":
        return [real_prog(i[1]), "mul"]
    return pad_prog(i[2]) + [real_prog(i[3]), "%s:%s" % (k, "-" if i[1] is None else i[1])]


def nlist_toks(l):
    out = []
    for it, p in l:
        out += nitem_toks(it) + opad_toks(p)
    return out


def nlist_prog(l):
    out = []
    for n, (it, p) in enumerate(l):
        out += nitem_prog(it) + opad_prog(p) + ["nl1" if n == 0 else "nls"]
    return out


# ----------------------------------------------------------------------------- cell parameter values
def cvseq_toks(s):
    k = s[0]
    if k == "cvl":
        return nlist_toks(s[1])
    if k == "cvr":
        return cvseq_toks(s[1]) + [(":", ":"), num_tok(s[2])] + opad_toks(s[3])
    if k == "cvn":
        return cvseq_toks(s[1]) + nitem_toks(s[2]) + opad_toks(s[3])
    if k == "cvg":
        return cvseq_toks(s[1]) + [("(", "(")] + opad_toks(s[2]) + nlist_toks(s[3]) + [(")", ")")] + opad_toks(s[4])
    if k == "cvp":
        return [("(", "(")] + opad_toks(s[1]) + nlist_toks(s[2]) + [(")", ")")] + opad_toks(s[3])
    raise ValueError(s)


def cvseq_prog(s):
    k = s[0]
    if k == "cvl":
        return nlist_prog(s[1]) + ["cvl"]
    if k == "cvr":
        return cvseq_prog(s[1]) + [real_prog(s[2])] + opad_prog(s[3]) + ["cvr"]
    if k == "cvn":
        return cvseq_prog(s[1]) + nitem_prog(s[2]) + opad_prog(s[3]) + ["cvn"]
    if k == "cvg":
        return cvseq_prog(s[1]) + opad_prog(s[2]) + nlist_prog(s[3]) + opad_prog(s[4]) + ["cvg"]
    return opad_prog(s[1]) + nlist_prog(s[2]) + opad_prog(s[3]) + ["cvp"]


def sep_toks(s):
    if s[0] == "seppad":
        return pad_toks(s[1])
    return opad_toks(s[1]) + [("=", "=")] + opad_toks(s[2])


def sep_prog(s):
    if s[0] == "seppad":
        return pad_prog(s[1]) + ["seppad"]
    return opad_prog(s[1]) + opad_prog(s[2]) + ["sepeq"]


def parts_toks(ps):
    out = []
    for n, p in enumerate(ps):
        out += [(":", ":") if n == 0 else (",", ","), p]
    return out


def cparam_toks(c):
    _, star, key, num, parts, sep, val = c
    return ([("*", "*")] if star else []) + [("KEYWORD", key)] + ([("NUMBER", str(num))] if num is not None else []) \
        + parts_toks([("PARTICLE", p) for p in parts]) + sep_toks(sep) + cvseq_toks(val)


def strs_prog(l):
    return ",".join(hx(x) for x in l) if l else "-"


def cparam_prog(c):
    _, star, key, num, parts, sep, val = c
    return sep_prog(sep) + cvseq_prog(val) + ["cp:%d:%s:%s:%s" % (1 if star else 0, hx(key), "-" if num is None else num, strs_prog(parts))]


def mat_toks(m):
    if m[0] == "void":
        return [num_tok(m[1])] + pad_toks(m[2])
    return [num_tok(m[1])] + pad_toks(m[2]) + [num_tok(m[3])] + pad_toks(m[4])


def mat_prog(m):
    if m[0] == "void":
        return [real_prog(m[1])] + pad_prog(m[2]) + ["void"]
    return [real_prog(m[1])] + pad_prog(m[2]) + [real_prog(m[3])] + pad_prog(m[4]) + ["mat"]


# ----------------------------------------------------------------------------- data classifier etc.
KEYWORDS = PARTICLES = None


def _tables():
    global KEYWORDS, PARTICLES
    if KEYWORDS is None:
        from montepy.input_parser import tokens
        KEYWORDS = set(tokens.MCNP_Lexer._KEYWORDS)
        PARTICLES = set(tokens.ParticleLexer._PARTICLES)


def word_class(w):
    """ParticleLexer.TEXT on a lower-case word: the tables are read from the MontePy under test"""
    _tables()
    if w in KEYWORDS:
        return "KEYWORD"
    if w in PARTICLES:
        return "PARTICLE"
    return "TEXT"


def dpart_tok(p):
    return ("PARTICLE_SPECIAL" if p[0] else "PARTICLE", p[1])


def dcls_toks(d):
    md, pfx, num, parts = d
    return ([("PARTICLE_SPECIAL", md)] if md is not None else []) + [(word_class(pfx), pfx)] \
        + ([("NUMBER", str(num))] if num is not None else []) + parts_toks([dpart_tok(p) for p in parts])


def dcls_args(d):
    md, pfx, num, parts = d
    ps = ",".join(("!" if s else "") + hx(t) for s, t in parts) if parts else "-"
    return "%s:%s:%s:%s" % ("-" if md is None else hx(md), hx(pfx), "-" if num is None else num, ps)


def ptok_toks(p):
    return [dpart_tok(p)] + opad_toks(p[2])


def ptok_prog(p):
    return opad_prog(p[2]) + ["pt:%d:%s" % (1 if p[0] else 0, hx(p[1]))]


def ddata_toks(d):
    k = d[0]
    if k == "dnone":
        return []
    if k == "dnums":
        return nlist_toks(d[1])
    if k == "dparts":
        return sum((ptok_toks(p) for p in d[1]), [])
    return [("PARTICLE", d[1])] + pad_toks(d[2]) + nlist_toks(d[3])


def ddata_prog(d):
    k = d[0]
    if k == "dnone":
        return ["dnone"]
    if k == "dnums":
        return nlist_prog(d[1]) + ["dnums"]
    if k == "dparts":
        out = ptok_prog(d[1][0]) + ["pts0"]
        for p in d[1][1:]:
            out += ptok_prog(p) + ["ptsadd"]
        return out + ["dparts"]
    return pad_prog(d[2]) + nlist_prog(d[3]) + ["dopt:" + hx(d[1])]


def dparam_toks(p):
    if p[0] == "dp":
        return [(word_class(p[1]), p[1])] + sep_toks(p[2]) + nlist_toks(p[3])
    return [(word_class(p[1]), p[1])] + sep_toks(p[2]) + [("TEXT", p[3])] + opad_toks(p[4])


def dparam_prog(p):
    if p[0] == "dp":
        return sep_prog(p[2]) + nlist_prog(p[3]) + ["dp:" + hx(p[1])]
    return sep_prog(p[2]) + opad_prog(p[4]) + ["dpw:%s:%s" % (hx(p[1]), hx(p[3]))]


def titem_toks(t):
    if t[0] == "tin":
        return nlist_toks(t[1])
    return [("(", "(")] + opad_toks(t[1]) + nlist_toks(t[2]) + [(")", ")")] + opad_toks(t[3])


def titem_prog(t):
    if t[0] == "tin":
        return nlist_prog(t[1]) + ["tin"]
    return opad_prog(t[1]) + nlist_prog(t[2]) + opad_prog(t[3]) + ["tig"]


def sval_toks(v):
    if v[0] == "svn":
        return nlist_toks(v[1])
    if v[0] == "svp":
        return ptok_toks(v[1])
    return [("PARTICLE", "d"), num_tok(v[1])] + opad_toks(v[2])


def sval_prog(v):
    if v[0] == "svn":
        return nlist_prog(v[1]) + ["svn"]
    if v[0] == "svp":
        return ptok_prog(v[1]) + ["svp"]
    return [real_prog(v[1])] + opad_prog(v[2]) + ["svd"]


def zfrac_toks(z):
    _, lib, zz, p, fr, tr = z
    return [("ZAID" if lib else "NUMBER", zz)] + opad_toks(p) + [num_tok(fr)] + opad_toks(tr)


def lib_class(lib):
    """50m is spelled like a multiply shortcut: the lexer makes the multigroup class NUM_MULTIPLY"""
    return "NUM_MULTIPLY" if lib.endswith("m") else "NUMBER_WORD"


def mparam_toks(m):
    if m[0] == "mpn":
        return [("KEYWORD", m[1])] + sep_toks(m[2]) + nlist_toks(m[3])
    return [("KEYWORD", m[1])] + sep_toks(m[2]) + [(lib_class(m[3]), m[3])] + opad_toks(m[4])


def list_prog(items, f, zero, add):
    out = [zero]
    for x in items:
        out += f(x) + [add]
    return out


# ----------------------------------------------------------------------------- whole shapes
def toks(sh):
    k = sh[0]
    if k == "cell":
        _, lead, num, pad, mat, geom, params = sh
        return opad_toks(lead) + [num_tok(num)] + pad_toks(pad) + mat_toks(mat) + expr_toks(geom) \
            + sum((cparam_toks(c) for c in params), [])
    if k == "surf":
        _, lead, mod, num, p1, ptr, mn, p2, data = sh
        if mod == "*":
            head = [("*", "*"), num_tok(num)]
        elif mod == "+":
            head = [num_tok(["r", "p"] + num[2:])]
        else:
            head = [num_tok(num)]
        return opad_toks(lead) + head + pad_toks(p1) + ([num_tok(ptr[0])] + pad_toks(ptr[1]) if ptr else []) \
            + [("SURFACE_TYPE", mn)] + pad_toks(p2) + nlist_toks(data)
    if k == "data":
        _, lead, cls, pad, kw, dd, params = sh
        return opad_toks(lead) + dcls_toks(cls) + opad_toks(pad) \
            + ([("KEYWORD", kw[0])] + pad_toks(kw[1]) if kw else []) + ddata_toks(dd) \
            + sum((dparam_toks(p) for p in params), [])
    if k == "tally":
        _, seg, lead, cls, pad, items, end = sh
        return opad_toks(lead) + dcls_toks(cls) + opad_toks(pad) + sum((titem_toks(t) for t in items), []) \
            + ([("PARTICLE", end[0])] + opad_toks(end[1]) if end else [])
    if k == "sdef":
        _, lead, cls, pad, params = sh
        if not params:
            return opad_toks(lead) + dcls_toks(cls) + opad_toks(pad)
        return opad_toks(lead) + dcls_toks(cls) + pad_toks(pad) \
            + sum(([("KEYWORD", p[1])] + sep_toks(p[2]) + sval_toks(p[3]) for p in params), [])
    if k == "text":
        _, lead, source, txt = sh
        return opad_toks(lead) + [("SOURCE_COMMENT" if source else "TALLY_COMMENT", txt)]
    if k == "mcard":
        _, lead, num, pad, zs, ps = sh
        return opad_toks(lead) + [("TEXT", "m"), ("NUMBER", str(num))] + opad_toks(pad) \
            + sum((zfrac_toks(z) for z in zs), []) + sum((mparam_toks(m) for m in ps), [])
    if k == "mtcard":
        _, lead, num, pad, laws = sh
        return opad_toks(lead) + [("TEXT", "mt"), ("NUMBER", str(num))] + opad_toks(pad) \
            + sum(([("THERMAL_LAW", l[0])] + opad_toks(l[1]) for l in laws), [])
    raise ValueError(k)


def representable(sh):
    """False for the G_core sentences the Coq shape type cannot express (none at present)"""
    return True


def prog(sh):
    k = sh[0]
    if k == "cell":
        _, lead, num, pad, mat, geom, params = sh
        return opad_prog(lead) + [real_prog(num)] + pad_prog(pad) + mat_prog(mat) + expr_prog(geom) \
            + list_prog(params, cparam_prog, "cps0", "cpsadd") + ["cell"]
    if k == "surf":
        _, lead, mod, num, p1, ptr, mn, p2, data = sh
        return opad_prog(lead) + [real_prog(num)] + pad_prog(p1) \
            + ([real_prog(ptr[0])] + pad_prog(ptr[1]) + ["ptr"] if ptr else ["noptr"]) + pad_prog(p2) \
            + nlist_prog(data) + ["surf:%s:%s" % (mod or "-", hx(mn))]
    if k == "data":
        _, lead, cls, pad, kw, dd, params = sh
        return opad_prog(lead) + opad_prog(pad) + (pad_prog(kw[1]) + ["kw:" + hx(kw[0])] if kw else ["nokw"]) \
            + ddata_prog(dd) + list_prog(params, dparam_prog, "dps0", "dpsadd") + ["data:" + dcls_args(cls)]
    if k == "tally":
        _, seg, lead, cls, pad, items, end = sh
        return opad_prog(lead) + opad_prog(pad) + titem_prog(items[0]) \
            + list_prog(items[1:], titem_prog, "tis0", "tisadd") + opad_prog(end[1] if end else None) \
            + ["tally:%d:%s:%s" % (1 if seg else 0, dcls_args(cls), hx(end[0]) if end else "-")]
    if k == "sdef":
        _, lead, cls, pad, params = sh
        if not params:
            return opad_prog(lead) + opad_prog(pad) + ["sdef0:" + dcls_args(cls)]

        def sp(p):
            return sep_prog(p[2]) + sval_prog(p[3]) + ["spar:" + hx(p[1])]
        return opad_prog(lead) + pad_prog(pad) + sp(params[0]) + list_prog(params[1:], sp, "sps0", "spsadd") \
            + ["sdef:" + dcls_args(cls)]
    if k == "text":
        _, lead, source, txt = sh
        return opad_prog(lead) + ["text:%d:%s" % (1 if source else 0, hx(txt))]
    if k == "mcard":
        _, lead, num, pad, zs, ps = sh

        def zp(z):
            return opad_prog(z[3]) + [real_prog(z[4])] + opad_prog(z[5]) + ["zaid:%d:%s" % (1 if z[1] else 0, hx(z[2]))]

        def mp(m):
            if m[0] == "mpn":
                return sep_prog(m[2]) + nlist_prog(m[3]) + ["mpn:" + hx(m[1])]
            return sep_prog(m[2]) + opad_prog(m[4]) + ["mpl:%s:%s" % (hx(m[1]), hx(m[3]))]
        return opad_prog(lead) + opad_prog(pad) + zp(zs[0]) + list_prog(zs[1:], zp, "zs0", "zsadd") \
            + list_prog(ps, mp, "mps0", "mpsadd") + ["mcard:%d" % num]
    if k == "mtcard":
        _, lead, num, pad, laws = sh

        def lp(l):
            return opad_prog(l[1]) + ["law:" + hx(l[0])]
        return opad_prog(lead) + opad_prog(pad) + lp(laws[0]) + list_prog(laws[1:], lp, "laws0", "lawsadd") \
            + ["mtcard:%d" % num]
    raise ValueError(k)


def apply_mask(mask, ts):
    """token i is written in upper case when bit (i mod |mask|) of the mask is '1'"""
    if not mask:
        return list(ts)
    return [(c, t.upper() if mask[i % len(mask)] == "1" else t) for i, (c, t) in enumerate(ts)]


def render(sh, mask="0"):
    return "".join(t for _, t in apply_mask(mask, toks(sh)))


BLOCK = {"cell": "cell", "surf": "surface", "data": "data", "tally": "data", "sdef": "data", "text": "data",
         "mcard": "data", "mtcard": "data"}
PARSER = {"cell": "cell", "surf": "surface", "data": "data", "sdef": "param_only", "text": "data",
          "mcard": "material", "mtcard": "thermal"}


def parser_of(sh):
    if sh[0] == "tally":
        return "tally_seg" if sh[1] else "tally"
    return PARSER[sh[0]]


# =============================================================================== part 2: the generator
from collections import Counter

LETTER_PARTICLES = list("npequvfhlxyogzkbcwdtsa")
SYMBOL_PARTICLES = list("|+-!<>/%^_~@*?#")
ALL_PARTICLES = LETTER_PARTICLES + SYMBOL_PARTICLES            # the 37 designators of G_core's `pl`
COMMON_PARTICLES = list("npehdtsa") + ["|"]

SURF_COUNTS = {
    "p": [4, 9], "px": [1], "py": [1], "pz": [1], "so": [1], "s": [4], "sx": [2], "sy": [2], "sz": [2],
    "c/x": [3], "c/y": [3], "c/z": [3], "cx": [1], "cy": [1], "cz": [1],
    "k/x": [4, 5], "k/y": [4, 5], "k/z": [4, 5], "kx": [2, 3], "ky": [2, 3], "kz": [2, 3],
    "sq": [10], "gq": [10], "tx": [6], "ty": [6], "tz": [6], "x": [2, 4, 6], "y": [2, 4, 6], "z": [2, 4, 6],
    "box": [9, 12], "rpp": [6], "sph": [4], "rcc": [7], "rhp": [9, 15], "hex": [9, 15], "rec": [10, 12],
    "trc": [8], "ell": [7], "wed": [12], "arb": [30],
}
CONE_SHEET = {"k/x": 5, "k/y": 5, "k/z": 5, "kx": 3, "ky": 3, "kz": 3}
MAT_LIB_KEYS = ["nlib", "plib", "pnlib", "elib", "hlib", "alib", "slib", "tlib", "dlib"]
MAT_NUM_KEYS = ["gas", "estep", "hstep", "cond", "refi", "refc", "refs"]
# data classes of the library identifiers (mval ::= D D L): continuous / discrete / multigroup neutron, photoatomic /
# multigroup photon, photonuclear, dosimetry, electron, proton, thermal, alpha, helion, triton, deuteron
LIB_LETTERS = {"nlib": "cdm", "plib": "pg", "pnlib": "u", "elib": "e", "hlib": "h", "alib": "a", "slib": "s", "tlib": "t",
               "dlib": "o"}
ALL_LIB_LETTERS = "cdmpguyehtaso"
SDEF_KEYS = ["cel", "sur", "erg", "tme", "dir", "vec", "nrm", "pos", "rad", "ext", "axs", "x", "y", "z", "ccc", "ara",
             "wgt", "tr", "eff", "par", "dat", "loc", "bem", "bap"]
SDEF_VECTOR = {"vec": 3, "pos": 3, "axs": 3, "dat": 3}
NUM_CARDS = ["e", "t", "c", "sd", "de", "df", "em", "tm", "cm"]
DIST_CARDS = ["si", "sp", "sb", "ds"]
DIST_OPTIONS = ["h", "l", "a", "s", "d", "c", "v"]
# generic number/keyword cards: name -> (takes a number?, takes particles?, keyword parameters)
GENERIC = {
    "nps": (0, 0, []), "ctme": (0, 0, []), "print": (0, 0, []), "prdmp": (0, 0, []), "phys": (0, 1, []),
    "cut": (0, 1, []), "void": (0, 0, []), "dbcn": (0, 0, []), "lost": (0, 0, []), "totnu": (0, 0, []),
    "nonu": (0, 0, []), "area": (0, 0, []), "tmp": (1, 0, []), "thtme": (0, 0, []),
    "rand": (0, 0, ["gen", "seed", "stride", "hist"]), "esplt": (0, 1, []), "wwe": (0, 1, []), "wwn": (1, 1, []),
    "wwp": (0, 1, []), "mesh": (0, 0, ["ref", "origin", "imesh", "iints"]), "fmesh": (1, 1, ["origin", "imesh", "iints", "emesh"]),
    "burn": (0, 0, ["time", "power", "pfrac"]), "act": (0, 0, ["dnbias", "thresh"]), "awtab": (0, 0, []),
}
GENERIC_WORDS = {"mesh": [("geom", ["xyz", "cyl"])], "fmesh": [("geom", ["xyz", "rzt"]), ("out", ["col", "ij"])],
                 "act": [("fission", ["all", "none"])]}
ELEMENTS = [(1, [1, 2, 3]), (2, [4]), (5, [10, 11]), (6, [12, 0]), (8, [16, 17]), (13, [27]), (26, [54, 56]), (40, [90, 91]),
            (82, [206, 208]), (92, [235, 238]), (94, [239])]
LAWS = ["lwtr.20t", "grph.10t", "h-h2o.40t", "poly.60t", "be/o.10t", "u/o2.30t", "hwtr.01t", "benz.10t"]
WORDS = ["fuel", "clad", "water", "region", "outer", "shell", "of", "the", "pin", "x", "7", "a1", "unit"]


def digits(rng, n, first_nonzero=False):
    s = "".join(rng.choice("0123456789") for _ in range(n))
    if first_nonzero and s and s[0] == "0":
        s = rng.choice("123456789") + s[1:]
    return s


class Gen:
    """One instance per problem.  Shapes are built in reading order and `self.col` follows the rendered text so
    that lines stay short (a break is forced at the next padding position once the line is longer than `soft`)."""

    def __init__(self, rng, wild=0.0, soft=52):
        self.rng = rng
        self.col = 0
        self.soft = soft
        self.cov = Counter()       # production-alternative coverage of section 5.2 / 5.3
        self.tags = set()          # features of the sentence being built (used to attribute known findings)
        self.wild = wild           # probability scale of the rarely used alternatives

    # ---- bookkeeping
    def hit(self, name):
        self.cov[name] += 1

    def emit(self, ts):
        for _, t in ts:
            i = t.rfind("\n")
            self.col = self.col + len(t) if i < 0 else len(t) - i - 1

    def rare(self, p):
        return self.rng.random() < p

    # ---- numbers
    def real(self, kind="REAL", nonzero=False, small=False):
        """kind: INT NAT SINT UREAL REAL POS (a positive real).  Returns the node; emits nothing."""
        r = self.rng
        if kind in ("INT", "NAT", "SINT"):
            n = r.choice([1, 1, 1, 2, 2, 3]) if small else r.choice([1, 1, 2, 2, 3, 4, 5, 8])
            i = digits(r, n, first_nonzero=True)
            if kind != "INT" and not nonzero and r.random() < 0.08:
                i = "0"
            s = "n"
            if kind == "SINT":
                s = r.choice(["n", "n", "m", "m", "p"])
                self.hit("SINT:" + {"n": "plain", "m": "-", "p": "+"}[s])
            return ["r", s, i, None, None]
        form = r.choice(["int", "fixed", "fixed", "dot", "lead", "sci", "sci", "fortran"])
        self.hit("REAL:" + form)
        ni = r.choice([1, 1, 2, 3, 4])
        i = digits(r, ni)
        if r.random() < 0.85:
            i = digits(r, ni, first_nonzero=True)
        else:
            self.hit("REAL:leading-zero")
        fr = None
        ex = None
        if form in ("fixed", "sci", "fortran"):
            fr = digits(r, r.choice([1, 2, 3, 5]))
        elif form == "dot":
            fr = ""
        elif form == "lead":
            i, fr = "", digits(r, r.choice([1, 2, 4]))
        if form in ("sci", "fortran"):
            mk = r.choice(["e", "E"]) if form == "sci" else "f"
            es = r.choice(["n", "p", "m"]) if form == "sci" else r.choice(["p", "m"])
            ed = digits(r, r.choice([1, 1, 2, 2]))
            if r.random() < 0.05:
                ed = r.choice(["0", "1", "2"]) + digits(r, 2)
                self.hit("REAL:exp-3-digits")
            if r.random() < 0.2:
                fr = None if (mk == "f" and r.random() < 0.85) else r.choice([None, ""])
            ex = [mk, es, ed]
            self.hit("REAL:exp-" + mk + {"n": "", "p": "+", "m": "-"}[es])
            if mk == "f" and fr == "":
                self.tags.add("real:fortran-after-dot")
        s = "n"
        if kind == "REAL":
            s = r.choice(["n", "n", "m", "m", "p"])
            self.hit("REAL:sign" + {"n": "none", "m": "-", "p": "+"}[s])
        node = ["r", s, i, fr, ex]
        if (nonzero or kind == "POS") and real_zero(node):
            node[2] = (i or "") + r.choice("123456789")
        if not node[2] and not node[3]:
            node[2] = "1"
        return node

    def simple(self, text):
        """a plain unsigned integer/fixed literal"""
        if "." in text:
            a, b = text.split(".")
            return ["r", "n", a, b, None]
        s = "n"
        if text[0] in "+-":
            s, text = ("p" if text[0] == "+" else "m"), text[1:]
        return ["r", s, text, None, None]

    # ---- padding
    def text(self, n=3):
        return " " + " ".join(self.rng.choice(WORDS) for _ in range(self.rng.randint(0, n)))

    def clines(self):
        out = []
        for _ in range(self.rng.choice([1, 1, 2, 3])):
            ind = self.rng.choice([0, 0, 0, 1, 3, 4])
            if self.rng.random() < 0.2:
                out.append([ind, None])
                self.hit("L:comment-line-bare-c")
            else:
                out.append([ind, self.text(4).strip()])
                self.hit("L:comment-line" + ("-indented" if ind else ""))
        return out

    def pad(self, final=False, allow_break=True):
        """mandatory padding between two tokens (or after the last one when final)"""
        r = self.rng
        x = r.random()
        force = self.col > self.soft and allow_break and not final
        if final:
            if x < 0.6:
                p = ["sp", r.choice([0, 0, 1, 3])]
                self.hit("L:trailing-blanks")
            else:
                p = ["de", r.choice([0, 0, 2]), self.text()]
                self.hit("L:dollar-at-end")
        elif not allow_break or (x < 0.74 and not force):
            if x < 0.05 * (1 + 4 * self.wild) and allow_break is not None:
                p = ["tab", r.choice([0, 0, 1])]
                self.hit("L:tab")
            else:
                p = ["sp", r.choice([0, 0, 0, 0, 1, 2, 5])]
                self.hit("L:blanks")
        else:
            y = r.random()
            if y < 0.35:
                p = ["br", r.choice([0, 0, 1]), r.choice([0, 0, 1, 4])]
                self.hit("L:newline+5")
            elif y < 0.55:
                p = ["dl", r.choice([0, 1]), self.text(), r.choice([0, 0, 2])]
                self.hit("L:dollar+newline")
            elif y < 0.8:
                p = ["cm", r.choice([0, 0, 1]), self.clines(), r.choice([0, 0, 3])]
            else:
                p = ["am", r.choice([0, 0, 1]), r.choice([0, 1, 4, 5, 7])]
                self.hit("L:ampersand" + ("-lt5" if p[2] < 5 else "-ge5"))
        self.emit(pad_toks(p))
        return p

    def opad(self, prob=0.3, final=False):
        if self.col > self.soft and not final:
            return self.pad()
        if self.rng.random() < prob:
            return self.pad(final=final)
        return None

    def lead(self, max_blank=4):
        r = self.rng
        x = r.random()
        self.col = 0
        if x < 0.75:
            return None
        if x < 0.88:
            p = ["sp", r.randint(0, max_blank - 1)]
            self.hit("L:lead-blanks")
        else:
            p = ["ld", self.clines(), r.choice([0, 0, 0, 2, max_blank])]
            self.hit("L:lead-comment-lines")
        self.emit(pad_toks(p))
        return p

    def sep(self, eq_only=False):
        r = self.rng
        x = r.random()
        if x < 0.6 or (eq_only and x < 0.8):
            self.emit([("=", "=")])
            self.hit("EQ:=")
            return ["sepeq", None, None]
        if x < 0.8 and not eq_only:
            self.hit("EQ:blank")
            return ["seppad", self.pad(allow_break=False)]
        pl = self.pad(allow_break=False) if r.random() < 0.7 else None
        self.emit([("=", "=")])
        pr = self.pad(allow_break=False) if r.random() < 0.7 or pl is None else None
        self.hit("EQ:blank=blank")
        return ["sepeq", pl, pr]

    # ---- particles
    def particle(self, where):
        r = self.rng
        if r.random() < 0.93 or where == "cell" and r.random() < 0.5:
            if where == "cell":
                p = r.choice(COMMON_PARTICLES[:-1] if r.random() < 0.8 else list("qvfhlogkbw"))
            else:
                p = r.choice(COMMON_PARTICLES if r.random() < 0.8 else list("qvfhlogkbw") + list("|<>%*?"))
        else:
            p = r.choice(ALL_PARTICLES)
        self.hit("pl:" + p)
        if p in "uxyz":
            self.tags.add("particle-keyword:" + p)
        special = p in SYMBOL_PARTICLES
        if special and (where == "cell" or p in "+-!/^_~@#"):
            self.tags.add("particle-symbol:%s@%s" % (p, where))
        return special, p

    def plist(self, where, n=None):
        n = n or self.rng.choice([1, 1, 1, 2, 3])
        out = []
        for _ in range(n):
            s, p = self.particle(where)
            if p not in [q for _, q in out]:
                out.append((s, p))
        return out

    # ---- numeric lists with shortcuts
    def nlist(self, n, kind="REAL", shortcuts=True, positive=False, end_pad=None, last_final=False, values=None):
        """a list that expands to exactly n entries; returns the list of [item, opad]"""
        r = self.rng
        items = []
        k = 0
        prev = None      # previous item kind
        use = shortcuts and r.random() < 0.45
        vk = "POS" if positive else kind
        while k < n:
            left = n - k
            choice = "num"
            if use and r.random() < 0.4:
                opts = ["j"]
                if prev not in (None, "j"):
                    opts += ["rep", "rep", "mul"]
                    if left >= 2 and prev == "num":
                        opts += ["int", "int", "log"]
                choice = r.choice(opts)
            if values is not None and choice not in ("num",):
                choice = "num"
            if choice == "num" and values is not None and values[k] == "j":
                it = ["j", None]
                k += 1
                self.hit("NL:J")
            elif choice == "num":
                v = values[k] if values is not None else self.real(vk)
                it = ["num", v]
                k += 1
                self.hit("NL:number")
            elif choice == "j":
                c = r.choice([None, None, 1, 2, 3])
                c = None if c is None or c > left else c
                it = ["j", c]
                k += c or 1
                self.hit("NL:nJ" if c else "NL:J")
            elif choice == "rep":
                c = r.choice([None, None, 1, 2, 5])
                c = None if c is None or c > left else c
                it = ["rep", c]
                k += c or 1
                self.hit("NL:nR" if c else "NL:R")
            elif choice == "mul":
                if r.random() < 0.06:
                    x = self.real("UREAL", nonzero=True)
                    if x[3] is None and x[4] is None:
                        x[3] = "5"
                    self.tags.add("mul-real")
                    self.hit("NL:xM-real")
                else:
                    x = ["r", "n", digits(r, 1, True), None, None]
                    self.hit("NL:xM")
                it = ["mul", x]
                k += 1
            else:
                c = r.choice([None, 1, 2, 3])
                c = None if c is None or c + 1 > left else c
                if (c or 1) + 1 > left:
                    continue
                # w follows: the whole item contributes c (or 1) interpolated entries + w
                if choice == "log" or positive:
                    w = self.real("POS")
                elif self.rng.random() < 0.15:
                    w = ["r", "n", "0", None, None]
                    self.hit("NL:I-ends-at-zero")
                else:
                    w = self.real(vk, nonzero=True)
                if choice == "log":
                    # only between positive numbers: the previous number must be positive too
                    pv = items[-1][0][1]
                    if pv[1] == "m" or real_zero(pv):
                        continue
                it = [choice, c, None, w]
                k += (c or 1) + 1
                self.hit("NL:" + ("nI" if c else "I") + ("LOG" if choice == "log" else ""))
            if prev not in (None, "num") and it[0] != "num":
                self.hit("NL:adjacent-shortcuts")
                self.tags.add("adjacent-shortcuts")
            if not items and it[0] == "j":
                self.hit("NL:shortcut-first")
            # emit in reading order
            if it[0] in ("int", "log"):
                self.emit(nitem_toks([it[0], it[1], ["sp", 0], ["r", "n", "", None, None]])[:1])
                it[2] = self.pad()
                self.emit([num_tok(it[3])])
            else:
                self.emit(nitem_toks(it))
            last = k >= n
            if last:
                if it[0] != "num":
                    self.hit("NL:shortcut-last")
                p = end_pad() if end_pad else None
            else:
                p = self.pad()
            items.append([it, p])
            prev = it[0]
        return items

    def plain_list(self, vals, end_pad=None):
        """numbers without shortcuts (trbody, bins): vals are real nodes"""
        out = []
        for n, v in enumerate(vals):
            self.emit([num_tok(v)])
            last = n == len(vals) - 1
            out.append([["num", v], (end_pad() if end_pad else None) if last else self.pad()])
        return out

    def trbody(self, degrees=False):
        n = self.rng.choice([3, 3, 6, 8, 9, 12, 12, 13])
        self.hit("trbody:%d" % n)
        vals = [self.real("REAL") for _ in range(min(n, 12))]
        if n == 13:
            vals.append(self.simple(self.rng.choice(["1", "-1"])))
        return vals

    # ---- cells
    def leaf(self, surfs):
        r = self.rng
        s = r.choice(["n", "n", "m", "m", "p"])
        self.hit("leaf:" + {"n": "plain", "m": "-", "p": "+"}[s])
        node = ["leaf", ["r", s, str(r.choice(surfs)), None, None]]
        self.emit(fact_toks(node))
        return node

    def fact(self, ctx, depth):
        r = self.rng
        x = r.random()
        if depth <= 0 or x < 0.55:
            return self.leaf(ctx["surfs"])
        if x < 0.65 and ctx["compl"]:
            node = ["ccell", ["r", "n", str(r.choice(ctx["compl"])), None, None]]
            self.emit(fact_toks(node))
            self.hit("fact:#INT")
            return node
        kind = "cpar" if x < 0.78 else "par"
        self.hit("fact:#(geom)" if kind == "cpar" else "fact:(geom)")
        self.emit([("COMPLEMENT", "#"), ("(", "(")] if kind == "cpar" else [("(", "(")])
        pl = self.opad(0.2)
        if pl is not None:
            self.hit("L:pad-after-(")
        e = self.expr(ctx, depth - 1, inner=True)
        self.emit([(")", ")")])
        return [kind, pl, e]

    def term(self, ctx, depth):
        r = self.rng
        t = ["t1", self.fact(ctx, depth)]
        last = t[1]
        n = r.choice([0, 0, 1, 1, 2, 3]) if depth > 0 else r.choice([0, 1, 2])
        for _ in range(n):
            # a blank is required between two facts unless a parenthesis separates them
            can_touch = last[0] in ("par", "cpar")
            nxt_par = depth > 0 and r.random() < 0.3
            if nxt_par:
                sep = self.opad(0.5)
                self.hit("term:fact(fact)" if sep is None else "term:fact (fact)")
                self.hit("fact:(geom)")
                self.emit([("(", "(")])
                pl = self.opad(0.2)
                e = self.expr(ctx, depth - 1, inner=True)
                self.emit([(")", ")")])
                f = ["par", pl, e]
            elif can_touch and r.random() < 0.4:
                sep = None
                if r.random() < 0.08 and ctx["compl"]:
                    self.hit("term:(fact)#INT")
                    f = ["ccell", ["r", "n", str(r.choice(ctx["compl"])), None, None]]
                    self.emit(fact_toks(f))
                else:
                    self.hit("term:(fact)leaf")
                    f = self.leaf(ctx["surfs"])
            else:
                sep = self.pad()
                self.hit("term:fact fact")
                f = self.fact(ctx, depth - 1 if depth > 0 else 0)
                if f[0] in ("par",):
                    pass
            t = ["tand", t, sep, f]
            last = f
        return t, last

    def expr(self, ctx, depth, inner=False, trail=None):
        """inner: inside parentheses (trailing padding optional); otherwise `trail` decides the last padding"""
        r = self.rng
        t, last = self.term(ctx, depth)
        n = r.choice([0, 0, 0, 1, 1, 2]) if depth > 0 else r.choice([0, 0, 1])
        if n == 0:
            tr = self.opad(0.15) if inner else (trail() if trail else None)
            return ["e1", t, tr]
        e = ["e1", t, self.opad(0.4)]
        for k in range(n):
            self.emit([(":", ":")])
            self.hit("geom:union")
            pr = self.opad(0.4)
            t, last = self.term(ctx, depth)
            lastone = k == n - 1
            if lastone:
                tr = self.opad(0.15) if inner else (trail() if trail else None)
            else:
                tr = self.opad(0.4)
            e = ["eor", e, pr, t, tr]
        return e

    def trvalue(self, kind, endp):
        """(trbody) value of FILL / TRCL, with or without padding after the parenthesis"""
        self.emit([("(", "(")])
        pl = None
        if self.rare(0.06):
            pl = self.pad(allow_break=False)
            self.tags.add("paren-lead-pad:" + kind)
            self.hit("L:pad-after-(-in-" + kind)
        inner = self.plain_list(self.trbody(), end_pad=lambda: self.opad(0.15))
        self.emit([(")", ")")])
        return pl, inner, endp()

    def cparam(self, key, ctx, last):
        """one keyword parameter of a cell; `last`: nothing follows on the card"""
        r = self.rng
        star = False
        num = None
        parts = []
        if key in ("fill", "trcl") and r.random() < 0.3:
            star = True
            self.emit([("*", "*")])
        self.emit([("KEYWORD", key)])
        if key in ("wwn", "dxc", "pd"):
            num = r.choice([1, 1, 2, 5, 12])
            self.emit([("NUMBER", str(num))])
        if key == "imp":
            parts = [p for _, p in self.plist("cell", n=ctx.get("imp_n"))] if not ctx.get("imp_parts") else ctx["imp_parts"]
        elif key in ("ext", "fcl", "elpt", "unc", "wwn", "dxc"):
            parts = [self.particle("cell")[1]]
        if parts:
            self.emit(parts_toks([("PARTICLE", p) for p in parts]))
            self.hit("plist:%d" % min(len(parts), 3))
        sep = self.sep()
        endp = (lambda: self.opad(0.3, final=True)) if last else self.pad

        def single(v):
            self.emit([num_tok(v)])
            return ["cvl", [[["num", v], endp()]]]
        self.hit("cparam:" + ("*" if star else "") + key.upper())
        if key in ("nonu", "unc"):
            self.tags.add("cparam:" + key)
        if key == "imp":
            val = single(self.simple(r.choice(["1", "0", "2", "0.5", "1.0", "4"])) if r.random() < 0.7 else self.real("UREAL"))
        elif key == "vol":
            val = single(self.real("POS"))
        elif key == "u":
            s = "m" if r.random() < 0.3 else "n"
            self.hit("U:" + ("-INT" if s == "m" else "INT"))
            val = single(["r", s, str(ctx.get("u") or r.choice(ctx["univs"])), None, None])
        elif key == "lat":
            val = single(self.simple(r.choice(["1", "2"])))
        elif key == "fill":
            x = r.random()
            if x < 0.3 and not star:
                self.hit("FILL:lattice-ranges")
                rngs = []
                cnt = 1
                s = None
                for ax in range(3):
                    lo = r.choice([0, 0, -1, -2]) if ax < 2 else 0
                    hi = lo + (r.choice([0, 1, 2]) if ax < 2 else r.choice([0, 0, 1]))
                    cnt *= hi - lo + 1
                    a = self.simple(str(lo))
                    b = self.simple(("+" if hi > 0 and r.random() < 0.1 else "") + str(hi))
                    self.emit([num_tok(a)])
                    s = ["cvl", [[["num", a], None]]] if s is None else ["cvn", s, ["num", a], None]
                    self.emit([(":", ":"), num_tok(b)])
                    s = ["cvr", s, b, self.pad()]
                for k in range(cnt):
                    v = self.simple(str(r.choice(ctx["univs"])))
                    self.emit([num_tok(v)])
                    s = ["cvn", s, ["num", v], endp() if k == cnt - 1 else self.pad()]
                val = s
            else:
                u = self.simple(str(r.choice(ctx["univs"])))
                self.emit([num_tok(u)])
                if x < 0.55 and not star:
                    self.hit("FILL:n")
                    val = ["cvl", [[["num", u], endp()]]]
                elif x < 0.7 and not star and ctx["trs"]:
                    self.hit("FILL:n (INT)")
                    head = ["cvl", [[["num", u], self.opad(0.8)]]]
                    self.emit([("(", "(")])
                    t = self.simple(str(r.choice(ctx["trs"])))
                    self.emit([num_tok(t), (")", ")")])
                    val = ["cvg", head, None, [[["num", t], None]], endp()]
                else:
                    self.hit("FILL:n (trbody)")
                    head = ["cvl", [[["num", u], self.opad(0.8)]]]
                    pl, inner, p = self.trvalue("fill", endp)
                    val = ["cvg", head, pl, inner, p]
        elif key == "trcl":
            if r.random() < 0.4 and not star and ctx["trs"]:
                self.hit("TRCL:INT")
                val = single(self.simple(str(r.choice(ctx["trs"]))))
            else:
                self.hit("TRCL:(trbody)")
                pl, inner, p = self.trvalue("trcl", endp)
                val = ["cvp", pl, inner, p]
        elif key == "tmp":
            val = single(self.real("POS"))
        elif key in ("nonu", "bflcl"):
            val = single(self.simple(r.choice(["0", "1", "2"])))
        elif key == "cosy":
            val = single(self.simple(str(r.randint(1, 6))))
        else:   # pwt ext fcl elpt unc wwn dxc pd: REAL
            val = single(self.real("REAL"))
        return ["cp", star, key, num, parts, sep, val]

    def cell(self, ctx):
        """ctx: num, surfs, compl (cell numbers that may be complemented), mat (number or 0), univs, trs,
        params: list of keys to write on the card, imp_parts"""
        r = self.rng
        self.tags = set()
        lead = self.lead()
        num = ["r", "n", str(ctx["num"]), None, None]
        self.emit([num_tok(num)])
        p0 = self.pad()
        if ctx["mat"] == 0:
            self.hit("mat:void")
            z = ["r", "n", "0", None, None]
            self.emit([num_tok(z)])
            mat = ["void", z, self.pad()]
        else:
            m = ["r", "n", str(ctx["mat"]), None, None]
            self.emit([num_tok(m)])
            p1 = self.pad()
            d = self.real("POS")
            if r.random() < 0.5:
                d[1] = "m"
                self.hit("mat:-dens")
            else:
                self.hit("mat:+dens")
            self.emit([num_tok(d)])
            mat = ["mat", m, p1, d, self.pad()]
        keys = list(ctx["params"])
        has = bool(keys)
        trail = self.pad if has else (lambda: self.opad(0.3, final=True))
        geom = self.expr(ctx, r.choice([0, 1, 1, 2, 2, 3]), trail=trail)
        params = [self.cparam(k, ctx, n == len(keys) - 1) for n, k in enumerate(keys)]
        return ["cell", lead, num, p0, mat, geom, params]

    # ---- surfaces
    def surface(self, ctx):
        """ctx: num, trs, periodic (surface numbers usable as periodic partner)"""
        r = self.rng
        self.tags = set()
        lead = self.lead()
        mod = r.choice([None, None, None, "*", "+"])
        self.hit("surface:modifier-" + (mod or "none"))
        num = ["r", "n", str(ctx["num"]), None, None]
        self.emit(([("*", "*")] if mod == "*" else []) + [num_tok(["r", "p"] + num[2:] if mod == "+" else num)])
        p1 = self.pad()
        ptr = None
        x = r.random()
        if x < 0.2 and ctx["trs"]:
            t = ["r", "n", str(r.choice(ctx["trs"])), None, None]
            self.hit("surface:pointer-transform")
        elif x < 0.3 and ctx["periodic"]:
            t = ["r", "m", str(r.choice(ctx["periodic"])), None, None]
            self.hit("surface:pointer-periodic")
        else:
            t = None
            self.hit("surface:pointer-none")
        if t:
            self.emit([num_tok(t)])
            ptr = [t, self.pad()]
        mn = ctx.get("mn") or r.choice(list(SURF_COUNTS))
        cnt = r.choice(SURF_COUNTS[mn])
        self.hit("MN:%s/%d" % (mn.upper(), cnt))
        self.emit([("SURFACE_TYPE", mn)])
        p2 = self.pad()
        endp = lambda: self.opad(0.3, final=True)
        if mn in CONE_SHEET and cnt == CONE_SHEET[mn]:
            body = self.nlist(cnt - 1, "REAL", end_pad=self.pad)
            sheet = self.simple(r.choice(["1", "-1", "+1"]))
            self.emit([num_tok(sheet)])
            data = body + [[["num", sheet], endp()]]
        else:
            data = self.nlist(cnt, "REAL", end_pad=endp)
        return ["surf", lead, mod, num, p1, ptr, mn, p2, data]

    # ---- data cards
    def dcls(self, name, num=None, parts=None, mod=None):
        cls = [mod, name, num, [[s, p] for s, p in (parts or [])]]
        if parts:
            self.hit("plist:%d" % min(len(parts), 3))
        self.emit(dcls_toks(cls))
        return cls

    def endp(self):
        return self.opad(0.3, final=True)

    def data_numbers(self, name, n, kind="REAL", num=None, parts=None, mod=None, kw=None, shortcuts=True, positive=False,
                     values=None):
        self.tags = set()
        lead = self.lead()
        cls = self.dcls(name, num, parts, mod)
        if n == 0 and kw is None:
            return ["data", lead, cls, self.endp(), None, ["dnone"], []]
        p = self.pad()
        k = None
        if kw:
            self.emit([("KEYWORD", kw)])
            k = [kw, self.pad()]
        lst = self.nlist(n, kind, shortcuts=shortcuts, positive=positive, end_pad=self.endp, values=values)
        return ["data", lead, cls, p, k, ["dnums", lst], []]

    def material(self, ctx):
        r = self.rng
        self.tags = set()
        lead = self.lead()
        num = ctx["num"]
        self.emit([("TEXT", "m"), ("NUMBER", str(num))])
        pad = self.pad()
        n = r.choice([1, 1, 2, 3, 4, 6])
        neg = r.random() < 0.4
        self.hit("M:fractions-" + ("negative" if neg else "positive"))
        nparams = r.choice([0, 0, 0, 1, 1, 2, 3])
        if ctx.get("lib_letter"):
            nparams = max(nparams, 1)
        zs = []
        seen_lib = False
        for k in range(n):
            z, aa = r.choice(ELEMENTS)
            a = r.choice(aa)
            base = "%d%03d" % (z, a)
            x = r.random()
            if x < (0.25 if not seen_lib else 0.04):
                lib, zz = False, base
                self.hit("zaid:no-library")
                if seen_lib:
                    self.tags.add("mat-plain-after-lib")
            elif x < 0.8:
                lib, zz = True, base + "." + digits(r, 2) + r.choice("cpeh")
                self.hit("zaid:.DDL")
                seen_lib = True
            else:
                lib, zz = True, base + "." + digits(r, 3) + r.choice(["nc", "pc", "tc"])
                self.hit("zaid:.DDDLL")
                seen_lib = True
            self.emit([("ZAID" if lib else "NUMBER", zz)])
            p1 = self.pad()
            fr = self.real("POS")
            if neg:
                fr[1] = "m"
            self.emit([num_tok(fr)])
            last = k == n - 1 and nparams == 0
            zs.append(["zaid", lib, zz, p1, fr, self.endp() if last else self.pad()])
        ps = []
        keys = r.sample(MAT_LIB_KEYS + MAT_NUM_KEYS, nparams)
        if ctx.get("lib_letter") and not any(k_ in MAT_LIB_KEYS for k_ in keys):
            keys[0] = r.choice(MAT_LIB_KEYS)
        for k, key in enumerate(keys):
            last = k == nparams - 1
            self.emit([("KEYWORD", key)])
            sep = self.sep(eq_only=True)
            self.hit("mkey:" + key.upper())
            if key in MAT_LIB_KEYS:
                letter = r.choice(LIB_LETTERS[key]) if r.random() < 0.7 else r.choice(ALL_LIB_LETTERS)
                if ctx.get("lib_letter"):
                    letter = ctx["lib_letter"]
                lib = digits(r, 2) + letter
                self.emit([(lib_class(lib), lib)])
                self.hit("mval:DDL")
                self.hit("mval:DDL-class-" + letter)
                ps.append(["mpl", key, sep, lib, self.endp() if last else self.pad()])
            else:
                v = self.real("REAL")
                self.emit([num_tok(v)])
                self.hit("mval:REAL")
                ps.append(["mpn", key, sep, [[["num", v], self.endp() if last else self.pad()]]])
        return ["mcard", lead, num, pad, zs, ps]

    def thermal(self, ctx):
        r = self.rng
        self.tags = set()
        lead = self.lead()
        self.emit([("TEXT", "mt"), ("NUMBER", str(ctx["num"]))])
        pad = self.pad()
        n = r.choice([1, 1, 2, 3])
        laws = []
        for k in range(n):
            l = r.choice(LAWS)
            self.emit([("THERMAL_LAW", l)])
            laws.append([l, self.endp() if k == n - 1 else self.pad()])
        self.hit("MT:%d-laws" % min(n, 2))
        return ["mtcard", lead, ctx["num"], pad, laws]

    def transform(self, ctx):
        star = self.rng.random() < 0.4
        self.hit("TR:" + ("*TR" if star else "TR"))
        vals = self.trbody(star)
        return self.data_numbers("tr", len(vals), num=ctx["num"], mod="*" if star else None, shortcuts=False, values=vals)

    def mode(self, parts):
        self.tags = set()
        for s, p in parts:
            if p in "uxyz":
                self.tags.add("particle-keyword:" + p)
            if s and p in "+-!/^_~@#":
                self.tags.add("particle-symbol:%s@data" % p)
        lead = self.lead()
        cls = self.dcls("mode")
        pad = self.pad()
        ps = []
        for k, (s, p) in enumerate(parts):
            self.emit([dpart_tok((s, p))])
            ps.append([s, p, self.endp() if k == len(parts) - 1 else self.pad()])
        self.hit("MODE:%d" % min(len(parts), 3))
        return ["data", lead, cls, pad, None, ["dparts", ps], []]

    def tally(self, ctx):
        r = self.rng
        self.tags = set()
        lead = self.lead()
        mod = r.choice([None, None, None, None, "*", "*", "+"]) if r.random() < 0.5 else None
        self.hit("F:modifier-" + (mod or "none"))
        if mod == "+":
            self.tags.add("tally-mod:+")
        parts = ctx.get("parts") or self.plist("data", n=r.choice([1, 1, 2]))
        cls = self.dcls("f", ctx["num"], parts, mod)
        pad = self.pad()
        n = r.choice([1, 1, 2, 3, 4])
        want_end = r.random() < 0.35
        items = []
        for k in range(n):
            last = k == n - 1
            fin = last and not want_end
            if r.random() < 0.4:
                self.emit([("(", "(")])
                pl = None
                if self.rare(0.06):
                    pl = self.pad(allow_break=False)
                    self.tags.add("paren-lead-pad:tally")
                    self.hit("L:pad-after-(-in-tally")
                m = r.choice([1, 2, 2, 3, 5])
                inner = self.plain_list([self.sint(ctx["cells"]) for _ in range(m)], end_pad=lambda: self.opad(0.15))
                self.emit([(")", ")")])
                pr = self.endp() if fin else self.opad(0.8)
                items.append(["tig", pl, inner, pr])
                self.hit("tbins:(SINT+)")
            else:
                m = r.choice([1, 1, 2, 4])
                if items and items[-1][0] == "tin":
                    # two plain runs in a row are one run
                    continue_run = items.pop()
                    inner0 = continue_run[1]
                else:
                    inner0 = []
                inner = self.plain_list([self.sint(ctx["cells"]) for _ in range(m)], end_pad=self.endp if fin else self.pad)
                items.append(["tin", inner0 + inner])
                self.hit("tbins:SINT")
        end = None
        if want_end:
            self.emit([("PARTICLE", "t")])
            end = ["t", self.endp()]
            self.hit("tbins:T")
        return ["tally", False, lead, cls, pad, items, end]

    def sint(self, pool):
        s = self.rng.choice(["n", "n", "n", "m", "p"]) if self.rng.random() < 0.5 else "n"
        return ["r", s, str(self.rng.choice(pool)), None, None]

    def fm(self, ctx):
        r = self.rng
        self.tags = set()
        lead = self.lead()
        cls = self.dcls("fm", ctx["num"])
        pad = self.pad()
        n = r.choice([1, 1, 2, 3])
        items = []
        for k in range(n):
            last = k == n - 1
            if r.random() < 0.5:
                self.emit([("(", "(")])
                pl = None
                if self.rare(0.12):
                    pl = self.pad(allow_break=False)
                    self.tags.add("paren-lead-pad:tally")
                inner = self.plain_list([self.real("REAL") for _ in range(r.choice([1, 3, 4]))], end_pad=lambda: self.opad(0.15))
                self.emit([(")", ")")])
                items.append(["tig", pl, inner, self.endp() if last else self.opad(0.8)])
                self.hit("FM:(REAL+)")
            else:
                inner0 = items.pop()[1] if items and items[-1][0] == "tin" else []
                inner = self.plain_list([self.real("REAL") for _ in range(r.choice([1, 3]))], end_pad=self.endp if last else self.pad)
                items.append(["tin", inner0 + inner])
                self.hit("FM:REAL")
        return ["tally", False, lead, cls, pad, items, None]

    def fs(self, ctx):
        r = self.rng
        self.tags = set()
        lead = self.lead()
        cls = self.dcls("fs", ctx["num"])
        pad = self.pad()
        want_end = r.random() < 0.4
        inner = self.plain_list([self.sint(ctx["surfs"]) for _ in range(r.choice([1, 2, 3, 5]))],
                                end_pad=self.pad if want_end else self.endp)
        end = None
        if want_end:
            self.emit([("PARTICLE", "t")])
            end = ["t", self.endp()]
        self.hit("FS:" + ("T" if want_end else "plain"))
        return ["tally", True, lead, cls, pad, [["tin", inner]], end]

    def comment_card(self, source, num):
        self.tags = set()
        lead = self.lead()
        txt = ("sc" if source else "fc") + str(num) + self.text(5)
        self.hit("SC" if source else "FC")
        for _ in range(self.rng.choice([0, 0, 0, 1, 2])):
            # the comment goes on on continuation lines; its text is free
            txt += NL + " " * self.rng.choice([5, 5, 6, 9]) + self.rng.choice(
                ["(n,g) rate = 5%", "total: 3 cells", "flux in the fuel", "1 2 3 $ not a comment", "it's"]) + self.text(2)
            self.hit("FC/SC:continuation-line")
        self.emit([("X", txt)])
        return ["text", lead, source, txt]

    def sdef(self, ctx):
        r = self.rng
        self.tags = set()
        lead = self.lead()
        cls = self.dcls("sdef")
        n = r.choice([0, 1, 2, 3, 3, 5]) if r.random() < 0.12 else r.choice([1, 2, 3, 3, 5])
        if n == 0:
            self.hit("SDEF:no-parameters")
            return ["sdef", lead, cls, self.endp(), []]
        pad = self.pad()
        keys = r.sample(SDEF_KEYS, n)
        ps = []
        for k, key in enumerate(keys):
            last = k == n - 1
            endp = self.endp if last else self.pad
            self.emit([("KEYWORD", key)])
            sep = self.sep()
            self.hit("skey:" + key.upper())
            x = r.random()
            if key == "par":
                if x < 0.6:
                    s, p = self.particle("data")
                    self.emit([dpart_tok((s, p))])
                    v = ["svp", [s, p, endp()]]
                    self.hit("sval:pl")
                else:
                    w = self.simple(str(r.choice([1, 2, 3, 9])))
                    self.emit([num_tok(w)])
                    v = ["svn", [[["num", w], endp()]]]
                    self.hit("sval:REAL+")
            elif x < 0.3 and key not in SDEF_VECTOR:
                d = self.simple(str(r.choice(ctx["dists"])))
                self.emit([("PARTICLE", "d"), num_tok(d)])
                v = ["svd", d, endp()]
                self.hit("sval:D INT")
            else:
                m = SDEF_VECTOR.get(key, 1)
                v = ["svn", self.plain_list([self.real("REAL") for _ in range(m)], end_pad=endp)]
                self.hit("sval:REAL+")
            ps.append(["spar", key, sep, v])
        return ["sdef", lead, cls, pad, ps]

    def dist_card(self, name, num, option=None):
        r = self.rng
        self.tags = set()
        lead = self.lead()
        cls = self.dcls(name, num)
        pad = self.pad()
        n = r.choice([1, 2, 3, 5, 9])
        if option or r.random() < 0.6:
            o = option or r.choice(DIST_OPTIONS)
            self.emit([("PARTICLE", o)])
            p = self.pad()
            self.hit("%s:option-%s" % (name.upper(), o.upper()))
            lst = self.nlist(n, "REAL", end_pad=self.endp)
            return ["data", lead, cls, pad, None, ["dopt", o, p, lst], []]
        self.hit("%s:no-option" % name.upper())
        return ["data", lead, cls, pad, None, ["dnums", self.nlist(n, "REAL", end_pad=self.endp)], []]

    def generic(self, name, ctx):
        r = self.rng
        self.tags = set()
        has_num, has_part, keys = GENERIC[name]
        lead = self.lead()
        num = r.choice([1, 2, 14]) if has_num and r.random() < 0.8 else None
        if name == "fmesh":
            num = r.choice([4, 14, 24])
        parts = self.plist("data", n=1) if has_part and r.random() < 0.85 else None
        if name in ("fmesh", "wwn") and not parts:
            parts = self.plist("data", n=1)
        cls = self.dcls(name, num, parts)
        self.hit("gname:" + name.upper())
        words = GENERIC_WORDS.get(name, [])
        nk = r.choice([0, 1, 2]) if keys else 0
        nw = 1 if words and r.random() < 0.6 else 0
        if name in ("mesh", "fmesh", "rand", "burn", "act"):
            n = 0
            nk = max(nk, 1 - nw)
        else:
            n = r.choice([0, 1, 1, 2, 3, 6]) if name in ("print", "void", "totnu", "nonu") else r.choice([1, 1, 2, 3, 6])
        self.hit("generic:%s%s%s" % ("numbers" if n else "no-numbers", "+keys" if nk else "", "+word" if nw else ""))
        total = nk + nw
        if n == 0 and total == 0:
            return ["data", lead, cls, self.endp(), None, ["dnone"], []]
        pad = self.pad()
        dd = ["dnone"]
        if n:
            dd = ["dnums", self.nlist(n, "REAL", end_pad=self.endp if total == 0 else self.pad)]
        ps = []
        for k, key in enumerate(r.sample(keys, nk)):
            last = k == total - 1
            self.emit([(word_class(key), key)])
            sep = self.sep(eq_only=True)
            m = r.choice([1, 1, 2, 3])
            ps.append(["dp", key, sep, self.nlist(m, "REAL", shortcuts=False, end_pad=self.endp if last else self.pad)])
            self.hit("gkey:=REAL")
        if nw:
            key, ws = r.choice(words)
            self.emit([(word_class(key), key)])
            sep = self.sep(eq_only=True)
            w = r.choice(ws)
            self.emit([("TEXT", w)])
            ps.append(["dpw", key, sep, w, self.endp()])
            self.hit("gkey:=WORD")
        return ["data", lead, cls, pad, None, dd, ps]


# =============================================================================== part 3: problems
CELL_KEYS = ["imp", "vol", "u", "lat", "fill", "trcl", "tmp", "pwt", "nonu", "cosy", "bflcl", "ext", "fcl", "elpt",
             "unc", "wwn", "dxc", "pd"]


def hash_in_columns_1_5(sh):
    """a '#' in the first five columns of a line that is not a comment line announces the vertical input format"""
    for line in render(sh).split(NL):
        if "#" in line[:5] and not (line[:5].strip().lower() == "c" or line.lstrip().lower().startswith("c ") and len(line) - len(line.lstrip()) < 5):
            return True
    return False


def gen_problem(rng, wild=0.0, size=None, tame=False, width=128):
    """A well-formed problem of G_core: a list of sentences [{block, shape, mask, tags}], with the context
    conditions of section 5.2 (numbers unique per kind, references resolve, IMP covers MODE, each per-cell datum
    in one block only).  Returns (sentences, plan, coverage Counter)."""
    g = Gen(rng, wild, soft=52 if width >= 128 else 30)
    r = rng
    ncell = size or r.choice([2, 2, 3, 3, 4, 5, 6, 9])
    nsurf = r.choice([2, 3, 4, 5, 6, 8, 12])

    def uniq(n, hi):
        s = set()
        while len(s) < n:
            s.add(r.randint(1, hi) if r.random() < 0.8 else r.randint(1, 99999999))
        return sorted(s)
    cells = uniq(ncell, 99)
    surfs = uniq(nsurf, 999)
    mats = uniq(r.choice([1, 1, 2, 3]), 99)
    trs = uniq(r.choice([0, 1, 2]), 99)
    univs = uniq(r.choice([1, 2]), 50)
    # mode: mostly ordinary particles
    nmode = r.choice([1, 1, 2, 2, 3])
    mode = []
    while len(mode) < nmode:
        s, p = g.particle("data") if (r.random() < 0.12 and not tame) else (False, r.choice("npe"))
        if p not in [q for _, q in mode]:
            mode.append((s, p))
    where = {k: r.choice(["cell", "cell", "data", "none"]) for k in ("vol", "u", "lat", "fill")}
    where["imp"] = r.choice(["cell", "cell", "data"])
    if where["lat"] != "none" and where["fill"] == "none":
        where["fill"] = where["lat"]
    plan = {"cells": cells, "surfs": surfs, "mats": mats, "trs": trs, "univs": univs, "mode": mode, "where": where}
    out = []

    def tame_card(fn):
        """in a tame problem no card carries a feature of an open known finding (so that whole files are read)"""
        fallback = None
        for _ in range(60):
            sh = fn()
            if hash_in_columns_1_5(sh):
                continue         # that would be MCNP's vertical input format: not a sentence of G_core
            if max(len(l.expandtabs(8)) for l in render(sh).split(NL)) > width:
                continue         # lines never exceed the limit of the version under test
            fallback = sh
            if not tame or not any(known_feature(t) for t in features(sh)):
                return sh
        if fallback is None:
            raise RuntimeError("gen_core: cannot keep '#' out of columns 1-5 and the lines within %d columns" % width)
        return fallback

    def add(block, shape):
        mask = r.choice(["0", "0", "0", "1", "1"]) if r.random() < 0.7 else "".join(r.choice("01") for _ in range(r.randint(2, 7)))
        g.hit("case:" + ("lower" if set(mask) == {"0"} else "upper" if set(mask) == {"1"} else "mixed-per-token"))
        out.append({"block": block, "shape": shape, "mask": mask, "tags": sorted(g.tags)})

    # every universe that is referred to exists: cell k (k < len(univs)) is in universe univs[k] when u is in the cell block
    u_of = {}
    if where["u"] != "none":
        for k, c in enumerate(cells):
            u_of[c] = univs[k] if k < len(univs) else r.choice([None, None] + univs)
    lat_of = {c: r.choice([None, None, 1, 2]) for c in cells} if where["lat"] != "none" else {}
    fill_of = {}
    if where["fill"] != "none" and where["u"] != "none":
        for c in cells:
            if lat_of.get(c) or r.random() < 0.3:
                fill_of[c] = True
    extra_keys = ["tmp", "pwt", "nonu", "cosy", "bflcl", "ext", "fcl", "elpt", "unc", "wwn", "dxc", "pd", "trcl"]
    for k, c in enumerate(cells):
        keys = []
        if where["imp"] == "cell":
            keys.append("imp")
        if where["vol"] == "cell" and r.random() < 0.6:
            keys.append("vol")
        if where["u"] == "cell" and u_of.get(c):
            keys.append("u")
        if where["lat"] == "cell" and lat_of.get(c):
            keys.append("lat")
        if where["fill"] == "cell" and fill_of.get(c):
            keys.append("fill")
        ne = r.choice([0, 0, 0, 1, 1, 2, 3])
        keys += r.sample(extra_keys if r.random() < 0.25 else [k_ for k_ in extra_keys if k_ not in ("nonu", "unc")], ne)
        r.shuffle(keys)
        ctx = {"num": c, "surfs": surfs, "compl": cells[:k], "mat": r.choice([0] + mats), "univs": univs, "trs": trs,
               "params": [], "u": u_of.get(c)}
        imp_cards = []
        if "imp" in keys:
            # IMP covers exactly the particles of MODE: one parameter with all of them, or one per particle
            parts = [p for _, p in mode]
            for s, p in mode:
                if p in "uxyz":
                    pass
            if len(parts) > 1 and r.random() < 0.4:
                imp_cards = [[p] for p in parts]
            else:
                imp_cards = [parts]
        full = []
        for key in keys:
            if key == "imp":
                full += [("imp", ps) for ps in imp_cards]
            else:
                full.append((key, None))
        # build through the generator, one parameter at a time, keeping reading order
        ctx["params"] = [k_ for k_, _ in full]
        imps = [ps for k_, ps in full if k_ == "imp"]
        shape = tame_card(lambda: _cell_with_imps(g, ctx, imps, mode))
        add("cell", shape)
    for k, s in enumerate(surfs):
        ctx = {"num": s, "trs": trs, "periodic": surfs[:k]}
        add("surface", tame_card(lambda ctx=ctx: g.surface(ctx)))
    # ---- data block
    cards = []
    cards.append(lambda: g.mode(mode))
    for m in mats:
        cards.append(lambda m=m: g.material({"num": m}))
        if r.random() < 0.4:
            cards.append(lambda m=m: g.thermal({"num": m}))
    for t in trs:
        cards.append(lambda t=t: g.transform({"num": t}))
    n = len(cells)

    def trailing(k):
        return r.randint(1, k) if r.random() < 0.3 else k
    if where["imp"] == "data":
        groups = [[p] for p in mode] if len(mode) > 1 and r.random() < 0.5 else [mode]
        for grp in groups:
            cards.append(lambda grp=grp: _tagged_parts(g, grp, g.data_numbers("imp", n, "UREAL", parts=grp)))
            g.hit("IMP-card")
    if where["vol"] == "data":
        no = r.random() < 0.4
        g.hit("VOL:" + ("NO" if no else "plain"))
        cards.append(lambda no=no: g.data_numbers("vol", trailing(n), "UREAL", kw="no" if no else None, positive=True))
    if where["u"] == "data":
        vals = [g.simple(("-" if r.random() < 0.2 else "") + str(u_of[c])) if u_of.get(c) else g.simple("0") for c in cells]
        cards.append(lambda vals=vals: g.data_numbers("u", len(vals), values=vals))
        g.hit("U-card")
    if where["lat"] == "data":
        lats = [lat_of[c] or r.choice([1, 2]) for c in cells]
        vals = [g.simple(str(v)) for v in lats]
        cards.append(lambda vals=vals: g.data_numbers("lat", len(vals), values=vals))
        g.hit("LAT-card")
    if where["fill"] == "data" and where["u"] != "none":
        vals = [g.simple(str(r.choice(univs))) if fill_of.get(c) else "j" for c in cells]
        cards.append(lambda vals=vals: g.data_numbers("fill", len(vals), values=vals))
        g.hit("FILL-card")
    tnums = set()
    for _ in range(r.choice([0, 1, 1, 2, 3])):
        tn = r.choice([0, 1, 2, 10, 99]) * 10 + r.choice([1, 2, 4, 6, 7, 8])
        if tn in tnums:
            continue
        tnums.add(tn)
        tp = [r.choice(mode)]
        cards.append(lambda tn=tn, tp=tp: _tagged_parts(g, tp, g.tally({"num": tn, "cells": cells if tn % 10 in (4, 6, 7, 8) else surfs, "parts": tp})))
        for name in r.sample(NUM_CARDS, r.choice([0, 1, 2])):
            cards.append(lambda name=name, tn=tn: (g.hit("card:" + name.upper()), g.data_numbers(name, r.choice([1, 2, 4, 8, 20]), "REAL", num=tn))[1])
        if r.random() < 0.4:
            cards.append(lambda tn=tn: g.comment_card(False, tn))
        if r.random() < 0.4:
            cards.append(lambda tn=tn: g.fm({"num": tn}))
        if r.random() < 0.3:
            cards.append(lambda tn=tn: g.fs({"num": tn, "surfs": surfs}))
    dists = uniq(r.choice([1, 2]), 99)
    if r.random() < 0.7:
        cards.append(lambda: g.sdef({"dists": dists}))
        for d in dists:
            for name in r.sample(DIST_CARDS, r.choice([0, 1, 2])):
                cards.append(lambda name=name, d=d: g.dist_card(name, d))
            if r.random() < 0.3:
                cards.append(lambda d=d: g.comment_card(True, d))
    else:
        cards.append(lambda: (g.hit("KCODE"), g.data_numbers("kcode", r.choice([1, 4, 4, 6]), "REAL"))[1])
        cards.append(lambda: (g.hit("KSRC"), g.data_numbers("ksrc", 3 * r.choice([1, 2, 3]), "REAL"))[1])
    for name in r.sample(sorted(GENERIC), r.choice([1, 2, 3, 5])):
        cards.append(lambda name=name: g.generic(name, {}))
    head = cards[:1]
    rest = cards[1:]
    r.shuffle(rest)
    for c in head + rest:
        add("data", tame_card(c))
    return out, plan, g.cov


def _tagged_parts(g, parts, shape):
    for s, p in parts:
        if p in "uxyz":
            g.tags.add("particle-keyword:" + p)
        if s and p in "+-!/^_~@#":
            g.tags.add("particle-symbol:%s@data" % p)
    return shape


def _cell_with_imps(g, ctx, imps, mode):
    """Gen.cell with the importance parameters carrying the given particle lists"""
    it = iter(imps)
    orig = g.cparam

    def cparam(key, c, last):
        if key == "imp":
            c = dict(c, imp_parts=next(it))
        return orig(key, c, last)
    g.cparam = cparam
    try:
        shape = g.cell(ctx)
    finally:
        del g.cparam
    for s, p in mode:
        if any(p in ps for ps in imps):
            if p in "uxyz":
                g.tags.add("particle-keyword:" + p)
            if s:
                g.tags.add("particle-symbol:%s@cell" % p)
    return shape


def problem_text(sentences, rng=None, title="core grammar problem", message=None, crlf=False):
    """the file: [message] title cells BLANK surfaces BLANK data [BLANK]"""
    parts = []
    if message:
        parts.append("MESSAGE: " + message + NL + NL)
    parts.append(title + NL)
    for blk in ("cell", "surface", "data"):
        for s in sentences:
            if s["block"] == blk:
                parts.append(render(s["shape"], s["mask"]) + NL)
        if blk != "data":
            parts.append(NL)
    text = "".join(parts)
    if rng is not None and rng.random() < 0.5:
        text += NL
    return text.replace("\n", "\r\n") if crlf else text


# =============================================================================== part 4: features of a shape
PAD_KINDS = {"sp", "tab", "br", "dl", "de", "cm", "am", "ld"}


def is_node(x, kinds):
    return isinstance(x, list) and x and isinstance(x[0], str) and x[0] in kinds


def walk(node):
    """every list node of the tree, parents first"""
    if isinstance(node, list):
        yield node
        for x in node:
            yield from walk(x)


def plain_int(r):
    return r[1] == "n" and r[2] != "" and r[3] is None and r[4] is None


def zaid_like(n):
    """an unsigned number that starts like a ZAID with a library: dddd.dde (4-6 digits, two decimals, exponent e)"""
    return (is_node(n, {"r"}) and len(n) == 5 and n[1] == "n" and isinstance(n[2], str) and 4 <= len(n[2]) <= 6
            and n[3] is not None and len(n[3]) == 2 and n[4] is not None and n[4][0] in ("e", "E"))


def _ptag(special, p, where, out, in_list=False):
    """after the ":" or "," of a classifier the lexers read u x y z c as particles; in a list (MODE, PAR=) they do not"""
    if p == "c" and in_list:
        out.add("particle-comment:c")
    if p in ("u", "x", "y", "z") and in_list:
        out.add("particle-keyword:" + p)
    if special or p in SYMBOL_PARTICLES:
        if where == "cell" or p in "-!/^_~@#":
            out.add("particle-symbol:%s@%s" % (p, where))


def features(sh):
    """the features of a sentence that the known findings are about — computed from the shape alone"""
    out = set()
    where = "cell" if sh[0] == "cell" else "data"
    for n in walk(sh):
        if is_node(n, {"cp"}) and len(n) == 7:
            if n[2] in ("nonu", "unc"):
                out.add("cparam:" + n[2])
            for p in n[4]:
                _ptag(False, p, "cell", out)
        if is_node(n, {"cvg"}) and n[2] is not None:
            out.add("paren-lead-pad:cell-value")
        if is_node(n, {"cvp"}) and n[1] is not None:
            out.add("paren-lead-pad:cell-value")
        if is_node(n, {"tig"}) and n[1] is not None:
            out.add("paren-lead-pad:tally")
        if is_node(n, {"mul"}) and not plain_int(n[1]):
            out.add("mul-real")
        if is_node(n, {"r"}) and len(n) == 5 and n[4] is not None and n[4][0] == "f" and n[3] == "":
            out.add("real:fortran-after-dot")
        if zaid_like(n):
            out.add("real:zaid-like")
        if is_node(n, {"tand"}) and n[2] is None and n[3][0] in ("ccell", "cpar"):
            out.add("paren-then-complement")
        if is_node(n, {"svp"}):
            _ptag(n[1][0], n[1][1], "data", out, in_list=True)
        if is_node(n, {"dparts"}):
            for p in n[1]:
                _ptag(p[0], p[1], "data", out, in_list=True)
    if sh[0] in ("data", "tally", "sdef"):
        cls = sh[3] if sh[0] == "tally" else sh[2]
        if cls[0] == "+":
            out.add("tally-mod:+")
        for s, p in cls[3]:
            _ptag(s, p, "data", out)
    if sh[0] == "sdef" and not sh[4]:
        out.add("sdef-empty")
    if sh[0] == "data" and sh[2][1] in ("imp", "vol", "u", "lat", "fill") and sh[5][0] == "dnums":
        for it, _ in sh[5][1]:
            if it[0] != "num":
                out.add("percell-shortcut:%s:%s" % (sh[2][1], it[0]))
    if sh[0] == "data" and sh[5][0] == "dopt" and sh[5][1] == "c":
        out.add("particle-comment:option-c")
    if sh[0] == "mcard":
        for m in sh[5]:
            if m[0] == "mpl" and m[3].endswith("e"):
                out.add("lib-suffix-e")
    if sh[0] == "mcard":
        seen = False
        for z in sh[4]:
            if z[1]:
                seen = True
            elif seen:
                out.add("mat-plain-after-lib")
    # runs of shortcuts that follow each other without a number in between
    for n in walk(sh):
        if isinstance(n, list) and n and all(isinstance(e, list) and len(e) == 2 and is_node(e[0], {"num", "j", "rep", "mul", "int", "log"}) for e in n):
            run = 0
            for it, _ in n:
                run = run + 1 if it[0] != "num" else 0
                if run >= 2:
                    out.add("chained-shortcuts")
                if run >= 3:
                    out.add("chained-shortcuts-3")
            for (a, _), (b2, _) in zip(n, n[1:]):
                if a[0] == "mul" and b2[0] in ("rep", "int", "log"):
                    out.add("mul-then-shortcut")
                if it[0] in ("rep", "mul", "int", "log"):
                    out.add("shortcut:" + it[0])
                if it[0] == "j":
                    out.add("shortcut:j")
    return out


# feature prefixes that the open known findings of C12 are about -> can gen_core.without take the feature out?
KNOWN_FEATURES = {
    "particle-keyword:": True, "particle-symbol:": True, "particle-comment:": True,
    "paren-lead-pad:tally": True, "mul-real": True, "percell-shortcut:imp:j": True,
    "percell-shortcut:imp:mul": True, "percell-shortcut:vol:mul": True, "mul-then-shortcut": True,
}


def known_feature(tag):
    return any(tag.startswith(k) for k in KNOWN_FEATURES)


def map_tree(node, f):
    if isinstance(node, list):
        return f([map_tree(x, f) for x in node])
    return node


def without(sh, tag):
    """the same sentence with the tagged feature replaced by its ordinary alternative (None if not removable)"""
    kind = tag.split(":")[0]
    if tag == "particle-comment:option-c":
        return sh[:5] + [["dopt", "h"] + sh[5][2:]] + sh[6:]
    if kind == "cparam":
        key = tag.split(":")[1]
        if sh[0] != "cell":
            return None
        ps = [c for c in sh[6] if c[2] != key]
        return sh[:6] + [ps]
    if kind == "paren-then-complement":
        return map_tree(sh, lambda n: ["tand", n[1], ["sp", 0], n[3]] if (is_node(n, {"tand"}) and n[2] is None and n[3][0] in ("ccell", "cpar")) else n)
    if kind in ("particle-keyword", "particle-symbol", "particle-comment"):
        used = set()
        for n in walk(sh):
            if is_node(n, {"cp"}) and len(n) == 7:
                used.update(n[4])
        spare = [q for q in "nphdtsaeqvfl" if q not in used]

        def f(n):
            if is_node(n, {"cp"}) and len(n) == 7:
                return n[:4] + [[(spare.pop(0) if spare else "n") if (p in "uxyzc" or p in SYMBOL_PARTICLES) else p for p in n[4]]] + n[5:]
            if is_node(n, {"svp"}):
                return ["svp", [False, "n", n[1][2]]]
            if is_node(n, {"dparts"}):
                return ["dparts", [[False, "n" if k == 0 else "p", p[2]] if (p[1] in "uxyzc" or p[0]) else p for k, p in enumerate(n[1])]]
            return n
        sh2 = map_tree(sh, f)
        if sh2[0] in ("data", "tally", "sdef"):
            i = 3 if sh2[0] == "tally" else 2
            cls = sh2[i]
            sh2[i] = [cls[0], cls[1], cls[2], [[False, "n"] if (p in "uxyzc" or s) else [s, p] for s, p in cls[3]][:1] if cls[3] else []]
        return sh2
    if kind == "tally-mod":
        sh2 = list(sh)
        i = 3 if sh[0] == "tally" else 2
        sh2[i] = [None] + sh[i][1:]
        return sh2
    if kind == "paren-lead-pad":
        def f(n):
            if is_node(n, {"cvg"}):
                return n[:2] + [None] + n[3:]
            if is_node(n, {"cvp"}) or is_node(n, {"tig"}):
                return [n[0], None] + n[2:]
            return n
        return map_tree(sh, f)
    if kind in ("percell-shortcut", "chained-shortcuts-3", "mul-then-shortcut"):
        return map_tree(sh, lambda n: expand_plain(n) if is_nlist(n) else n)
    if kind == "lib-suffix-e":
        return sh[:5] + [[(m[:3] + [m[3][:-1] + "c"] + m[4:]) if (m[0] == "mpl" and m[3].endswith("e")) else m for m in sh[5]]]
    if kind == "mul-real":
        return map_tree(sh, lambda n: ["mul", ["r", "n", "2", None, None]] if is_node(n, {"mul"}) else n)
    if tag == "real:zaid-like":
        return map_tree(sh, lambda n: n[:3] + [n[3] + "0", n[4]] if zaid_like(n) else n)
    if kind == "real":
        return map_tree(sh, lambda n: n[:3] + ["0", n[4]] if (is_node(n, {"r"}) and len(n) == 5 and n[4] is not None and n[4][0] == "f" and n[3] == "") else n)
    if kind == "mat-plain-after-lib":
        zs = sorted(sh[4], key=lambda z: z[1])
        zs = [z[:3] + [["sp", 0], z[4], ["sp", 0]] for z in zs]      # the order changes: plain layout
        if not sh[5]:
            zs[-1] = zs[-1][:5] + [None]
        return sh[:4] + [zs] + sh[5:]
    return None


def paths(node, pred, prefix=()):
    """paths (tuples of indices) of the sub-nodes satisfying pred, parents first"""
    if isinstance(node, list):
        if pred(node):
            yield prefix
        for i, x in enumerate(node):
            yield from paths(x, pred, prefix + (i,))


def get_at(node, path):
    for i in path:
        node = node[i]
    return node


def replace_at(node, path, new):
    if not path:
        return new
    out = list(node)
    out[path[0]] = replace_at(node[path[0]], path[1:], new)
    return out


def expand_plain(l):
    """a numeric list with every shortcut replaced by as many plain numbers as it stands for"""
    out = []
    one = ["r", "n", "1", None, None]
    for it, p in l:
        k = it[0]
        if k == "num":
            out.append([it, p])
            continue
        n = {"j": it[1] or 1, "rep": it[1] or 1, "mul": 1}.get(k, 0) if k in ("j", "rep", "mul") else (it[1] or 1)
        items = [["num", one]] * n + ([["num", it[3]]] if k in ("int", "log") else [])
        for j, x in enumerate(items):
            out.append([x, p if j == len(items) - 1 else ["sp", 0]])
    return out


def is_nlist(n):
    return isinstance(n, list) and n and all(isinstance(e, list) and len(e) == 2 and is_node(e[0], {"num", "j", "rep", "mul", "int", "log"}) for e in n)


def simplify_pads(sh):
    return map_tree(sh, lambda n: ["sp", 0] if is_node(n, PAD_KINDS) and n[0] != "ld" else (None if is_node(n, {"ld"}) else n))


# every alternative of DESIGN.md 5.2 / 5.3 that the generator counts (Gen.hit); the evidence lists the ones a run
# did not exercise
ALTERNATIVES = [
    'mval:DDL-class-c', 'mval:DDL-class-d', 'mval:DDL-class-m', 'mval:DDL-class-p', 'mval:DDL-class-g', 'mval:DDL-class-u', 'mval:DDL-class-y', 'mval:DDL-class-e', 'mval:DDL-class-h', 'mval:DDL-class-t', 'mval:DDL-class-a', 'mval:DDL-class-s', 'mval:DDL-class-o',
    'FC/SC:continuation-line',
    'NL:I-ends-at-zero',
    'DS:no-option', 'DS:option-A', 'DS:option-C', 'DS:option-D', 'DS:option-H', 'DS:option-L', 'DS:option-S',
    'DS:option-V', 'EQ:=', 'EQ:blank', 'EQ:blank=blank', 'F:modifier-*', 'F:modifier-+', 'F:modifier-none', 'FC',
    'FILL-card', 'FILL:lattice-ranges', 'FILL:n', 'FILL:n (INT)', 'FILL:n (trbody)', 'FM:(REAL+)', 'FM:REAL', 'FS:T',
    'FS:plain', 'IMP-card', 'KCODE', 'KSRC', 'L:ampersand-ge5', 'L:ampersand-lt5', 'L:blanks', 'L:comment-line',
    'L:comment-line-bare-c', 'L:comment-line-indented', 'L:dollar+newline', 'L:dollar-at-end', 'L:lead-blanks',
    'L:lead-comment-lines', 'L:newline+5', 'L:pad-after-(', 'L:pad-after-(-in-fill', 'L:pad-after-(-in-tally',
    'L:pad-after-(-in-trcl', 'L:tab', 'L:trailing-blanks', 'LAT-card', 'M:fractions-negative', 'M:fractions-positive',
    'MN:ARB/30', 'MN:BOX/12', 'MN:BOX/9', 'MN:C/X/3', 'MN:C/Y/3', 'MN:C/Z/3', 'MN:CX/1', 'MN:CY/1', 'MN:CZ/1',
    'MN:ELL/7', 'MN:GQ/10', 'MN:HEX/15', 'MN:HEX/9', 'MN:K/X/4', 'MN:K/X/5', 'MN:K/Y/4', 'MN:K/Y/5', 'MN:K/Z/4',
    'MN:K/Z/5', 'MN:KX/2', 'MN:KX/3', 'MN:KY/2', 'MN:KY/3', 'MN:KZ/2', 'MN:KZ/3', 'MN:P/4', 'MN:P/9', 'MN:PX/1',
    'MN:PY/1', 'MN:PZ/1', 'MN:RCC/7', 'MN:REC/10', 'MN:REC/12', 'MN:RHP/15', 'MN:RHP/9', 'MN:RPP/6', 'MN:S/4',
    'MN:SO/1', 'MN:SPH/4', 'MN:SQ/10', 'MN:SX/2', 'MN:SY/2', 'MN:SZ/2', 'MN:TRC/8', 'MN:TX/6', 'MN:TY/6', 'MN:TZ/6',
    'MN:WED/12', 'MN:X/2', 'MN:X/4', 'MN:X/6', 'MN:Y/2', 'MN:Y/4', 'MN:Y/6', 'MN:Z/2', 'MN:Z/4', 'MN:Z/6', 'MODE:1',
    'MODE:2', 'MODE:3', 'MT:1-laws', 'MT:2-laws', 'NL:I', 'NL:ILOG', 'NL:J', 'NL:R', 'NL:adjacent-shortcuts', 'NL:nI',
    'NL:nILOG', 'NL:nJ', 'NL:nR', 'NL:number', 'NL:shortcut-first', 'NL:shortcut-last', 'NL:xM', 'NL:xM-real',
    'REAL:dot', 'REAL:exp-3-digits', 'REAL:exp-E', 'REAL:exp-E+', 'REAL:exp-E-', 'REAL:exp-e', 'REAL:exp-e+',
    'REAL:exp-e-', 'REAL:exp-f+', 'REAL:exp-f-', 'REAL:fixed', 'REAL:fortran', 'REAL:int', 'REAL:lead',
    'REAL:leading-zero', 'REAL:sci', 'REAL:sign+', 'REAL:sign-', 'REAL:signnone', 'SB:no-option', 'SB:option-A',
    'SB:option-C', 'SB:option-D', 'SB:option-H', 'SB:option-L', 'SB:option-S', 'SB:option-V', 'SC',
    'SDEF:no-parameters', 'SI:no-option', 'SI:option-A', 'SI:option-C', 'SI:option-D', 'SI:option-H', 'SI:option-L',
    'SI:option-S', 'SI:option-V', 'SP:no-option', 'SP:option-A', 'SP:option-C', 'SP:option-D', 'SP:option-H',
    'SP:option-L', 'SP:option-S', 'SP:option-V', 'TR:*TR', 'TR:TR', 'TRCL:(trbody)', 'TRCL:INT', 'U-card', 'U:-INT',
    'U:INT', 'VOL:NO', 'VOL:plain', 'card:C', 'card:CM', 'card:DE', 'card:DF', 'card:E', 'card:EM', 'card:SD',
    'card:T', 'card:TM', 'case:lower', 'case:mixed-per-token', 'case:upper', 'cparam:*FILL', 'cparam:*TRCL',
    'cparam:BFLCL', 'cparam:COSY', 'cparam:DXC', 'cparam:ELPT', 'cparam:EXT', 'cparam:FCL', 'cparam:FILL',
    'cparam:IMP', 'cparam:LAT', 'cparam:NONU', 'cparam:PD', 'cparam:PWT', 'cparam:TMP', 'cparam:TRCL', 'cparam:U',
    'cparam:UNC', 'cparam:VOL', 'cparam:WWN', 'fact:#(geom)', 'fact:#INT', 'fact:(geom)', 'generic:no-numbers',
    'generic:no-numbers+keys', 'generic:no-numbers+keys+word', 'generic:no-numbers+word', 'generic:numbers',
    'geom:union', 'gkey:=REAL', 'gkey:=WORD', 'gname:ACT', 'gname:AREA', 'gname:AWTAB', 'gname:BURN', 'gname:CTME',
    'gname:CUT', 'gname:DBCN', 'gname:ESPLT', 'gname:FMESH', 'gname:LOST', 'gname:MESH', 'gname:NONU', 'gname:NPS',
    'gname:PHYS', 'gname:PRDMP', 'gname:PRINT', 'gname:RAND', 'gname:THTME', 'gname:TMP', 'gname:TOTNU', 'gname:VOID',
    'gname:WWE', 'gname:WWN', 'gname:WWP', 'leaf:+', 'leaf:-', 'leaf:plain', 'mat:+dens', 'mat:-dens', 'mat:void',
    'mkey:ALIB', 'mkey:COND', 'mkey:DLIB', 'mkey:ELIB', 'mkey:ESTEP', 'mkey:GAS', 'mkey:HLIB', 'mkey:HSTEP',
    'mkey:NLIB', 'mkey:PLIB', 'mkey:PNLIB', 'mkey:REFC', 'mkey:REFI', 'mkey:REFS', 'mkey:SLIB', 'mkey:TLIB',
    'mval:DDL', 'mval:REAL', 'pl:!', 'pl:#', 'pl:%', 'pl:*', 'pl:+', 'pl:-', 'pl:/', 'pl:<', 'pl:>', 'pl:?', 'pl:@',
    'pl:^', 'pl:_', 'pl:a', 'pl:b', 'pl:c', 'pl:d', 'pl:e', 'pl:f', 'pl:g', 'pl:h', 'pl:k', 'pl:l', 'pl:n', 'pl:o',
    'pl:p', 'pl:q', 'pl:s', 'pl:t', 'pl:u', 'pl:v', 'pl:w', 'pl:x', 'pl:y', 'pl:z', 'pl:|', 'pl:~', 'plist:1',
    'plist:2', 'plist:3', 'skey:ARA', 'skey:AXS', 'skey:BAP', 'skey:BEM', 'skey:CCC', 'skey:CEL', 'skey:DAT',
    'skey:DIR', 'skey:EFF', 'skey:ERG', 'skey:EXT', 'skey:LOC', 'skey:NRM', 'skey:PAR', 'skey:POS', 'skey:RAD',
    'skey:SUR', 'skey:TME', 'skey:TR', 'skey:VEC', 'skey:WGT', 'skey:X', 'skey:Y', 'skey:Z', 'surface:modifier-*',
    'surface:modifier-+', 'surface:modifier-none', 'surface:pointer-none', 'surface:pointer-periodic',
    'surface:pointer-transform', 'sval:D INT', 'sval:REAL+', 'sval:pl', 'tbins:(SINT+)', 'tbins:SINT', 'tbins:T',
    'term:(fact)leaf', 'term:(fact)#INT', 'term:fact (fact)', 'term:fact fact', 'term:fact(fact)', 'trbody:12', 'trbody:13', 'trbody:3',
    'trbody:6', 'trbody:8', 'trbody:9', 'zaid:.DDDLL', 'zaid:.DDL', 'zaid:no-library',
]
