"""gen_core.py — sentences of the core grammar G_core (DESIGN.md section 5.2) closed under layout (5.3).

A sentence is a *shape*: a JSON-able tree (nested lists) mirroring the Coq inductive `shape` of
coq/Model/CoreGrammar.v.  Two independent renderings exist: `toks(shape)` here (a list of (class, text)) and
`gen` in Coq, reached through `prog(shape)` (the postfix program understood by run_CoreGrammar); the check
compares them token by token, so the rendering is under correspondence.

part 1 (this file, top): toks / prog / apply_mask      part 2: the random generator `Gen`
"""
import random

NL = "\n"


def hx(s):
    return s.encode("latin-1").hex()


# ----------------------------------------------------------------------------- reals
def real(sign="n", i="1", frac=None, exp=None):
    return ["r", sign, i, frac, exp]


def sign_text(s):
    return {"n": "", "p": "+", "m": "-"}[s]


def real_text(r):
    _, s, i, fr, ex = r
    t = sign_text(s) + i + ("" if fr is None else "." + fr)
    if ex is not None:
        mk, es, ed = ex
        if mk == "e":
            t += "e" + sign_text(es) + ed
        elif mk == "E":
            t += "E" + sign_text(es) + ed
        else:
            t += ("-" if es == "m" else "+") + ed
    return t


def real_zero(r):
    return set(r[2]) <= {"0"} and (r[3] is None or set(r[3]) <= {"0"})


def num_tok(r):
    return ("NULL" if real_zero(r) else "NUMBER", real_text(r))


def real_prog(r):
    _, s, i, fr, ex = r
    if ex is None:
        e = "-:n:"
    else:
        e = "%s:%s:%s" % ({"e": "e", "E": "E", "f": "f"}[ex[0]], ex[1], ex[2])
    return "r:%s:%s:%s:%s" % (s, i, "-" if fr is None else fr, e)


# ----------------------------------------------------------------------------- padding
def cline_tok(b):
    return ("COMMENT", "c " + b) if b is not None else ("COMMENT", "c" + NL)


def sp_tok(s):
    return [("SPACE", s)] if s else []


def comment_rest(pre, cs, last):
    out = []
    for ind, b in cs:
        out += sp_tok(pre + " " * ind)
        out.append(cline_tok(b))
        pre = NL if b is not None else ""
    return out + sp_tok(pre + last)


def pad_toks(p):
    k = p[0]
    if k == "sp":
        return [("SPACE", " " * (p[1] + 1))]
    if k == "tab":
        return [("SPACE", "\t" * (p[1] + 1))]
    if k == "br":
        return [("SPACE", " " * p[1] + NL + " " * (5 + p[2]))]
    if k == "dl":
        return [("SPACE", " " * (p[1] + 1)), ("DOLLAR_COMMENT", "$" + p[2]), ("SPACE", NL + " " * (5 + p[3]))]
    if k == "de":
        return [("SPACE", " " * (p[1] + 1)), ("DOLLAR_COMMENT", "$" + p[2])]
    if k == "cm":
        n, cs, m = p[1], p[2], p[3]
        if not cs:
            return [("SPACE", " " * n + NL + " " * (5 + m))]
        ind, b = cs[0]
        return [("SPACE", " " * n + NL + " " * ind), cline_tok(b)] + comment_rest(NL if b is not None else "", cs[1:], " " * (5 + m))
    if k == "am":
        return [("SPACE", " " * (p[1] + 1)), ("&", "&"), ("SPACE", NL + " " * p[2])]
    if k == "ld":
        cs, m = p[1], p[2]
        ind, b = cs[0]
        return sp_tok(" " * ind) + [cline_tok(b)] + comment_rest(NL if b is not None else "", cs[1:], " " * m)
    raise ValueError(p)


def opad_toks(p):
    return pad_toks(p) if p is not None else []


def clines_prog(cs):
    return ",".join("%d.%s" % (ind, "-" if b is None else hx(b)) for ind, b in cs) if cs else "-"


def pad_prog(p):
    k = p[0]
    if k in ("sp", "tab"):
        return ["%s:%d" % (k, p[1])]
    if k == "br":
        return ["br:%d:%d" % (p[1], p[2])]
    if k == "dl":
        return ["dl:%d:%s:%d" % (p[1], hx(p[2]), p[3])]
    if k == "de":
        return ["de:%d:%s" % (p[1], hx(p[2]))]
    if k == "cm":
        return ["cm:%d:%d:%s" % (p[1], p[3], clines_prog(p[2]))]
    if k == "am":
        return ["am:%d:%d" % (p[1], p[2])]
    if k == "ld":
        return ["ld:%d:%s" % (p[2], clines_prog(p[1]))]
    raise ValueError(p)


def opad_prog(p):
    return pad_prog(p) + ["some"] if p is not None else ["none"]


# ----------------------------------------------------------------------------- geometry
def fact_toks(f):
    k = f[0]
    if k == "leaf":
        return [num_tok(f[1])]
    if k == "ccell":
        return [("COMPLEMENT", "#"), num_tok(f[1])]
    if k == "cpar":
        return [("COMPLEMENT", "#"), ("(", "(")] + opad_toks(f[1]) + expr_toks(f[2]) + [(")", ")")]
    if k == "par":
        return [("(", "(")] + opad_toks(f[1]) + expr_toks(f[2]) + [(")", ")")]
    raise ValueError(f)


def term_toks(t):
    if t[0] == "t1":
        return fact_toks(t[1])
    return term_toks(t[1]) + opad_toks(t[2]) + fact_toks(t[3])


def expr_toks(e):
    if e[0] == "e1":
        return term_toks(e[1]) + opad_toks(e[2])
    return expr_toks(e[1]) + [(":", ":")] + opad_toks(e[2]) + term_toks(e[3]) + opad_toks(e[4])


def fact_prog(f):
    k = f[0]
    if k in ("leaf", "ccell"):
        return [real_prog(f[1]), k]
    return opad_prog(f[1]) + expr_prog(f[2]) + [k]


def term_prog(t):
    if t[0] == "t1":
        return fact_prog(t[1]) + ["t1"]
    return term_prog(t[1]) + opad_prog(t[2]) + fact_prog(t[3]) + ["tand"]


def expr_prog(e):
    if e[0] == "e1":
        return term_prog(e[1]) + opad_prog(e[2]) + ["e1"]
    return expr_prog(e[1]) + opad_prog(e[2]) + term_prog(e[3]) + opad_prog(e[4]) + ["eor"]


# ----------------------------------------------------------------------------- numeric lists
def onat(n):
    return "" if n is None else str(n)


def nitem_toks(i):
    k = i[0]
    if k == "num":
        return [num_tok(i[1])]
    if k == "j":
        return [("NUM_JUMP" if i[1] is not None else "JUMP", onat(i[1]) + "j")]
    if k == "rep":
        return [("NUM_REPEAT" if i[1] is not None else "REPEAT", onat(i[1]) + "r")]
    if k == "mul":
        return [("NUM_MULTIPLY", real_text(i[1]) + "m")]
    if k == "int":
        return [("NUM_INTERPOLATE" if i[1] is not None else "INTERPOLATE", onat(i[1]) + "i")] + pad_toks(i[2]) + [num_tok(i[3])]
    if k == "log":
        return [("NUM_LOG_INTERPOLATE" if i[1] is not None else "LOG_INTERPOLATE", onat(i[1]) + "ilog")] + pad_toks(i[2]) + [num_tok(i[3])]
    raise ValueError(i)


def nitem_prog(i):
    k = i[0]
    if k == "num":
        return [real_prog(i[1]), "num"]
    if k in ("j", "rep"):
        return ["%s:%s" % (k, "-" if i[1] is None else i[1])]
    if k == "mul":
        return [real_prog(i[1]), "mul"]
    return pad_prog(i[2]) + [real_prog(i[3]), "%s:%s" % (k, "-" if i[1] is None else i[1])]


def nlist_toks(l):
    out = []
    for it, p in l:
        out += nitem_toks(it) + opad_toks(p)
    return out


def nlist_prog(l):
    out = []
    for n, (it, p) in enumerate(l):
        out += nitem_prog(it) + opad_prog(p) + ["nl1" if n == 0 else "nls"]
    return out


# ----------------------------------------------------------------------------- cell parameter values
def cvseq_toks(s):
    k = s[0]
    if k == "cvl":
        return nlist_toks(s[1])
    if k == "cvr":
        return cvseq_toks(s[1]) + [(":", ":"), num_tok(s[2])] + opad_toks(s[3])
    if k == "cvn":
        return cvseq_toks(s[1]) + nitem_toks(s[2]) + opad_toks(s[3])
    if k == "cvg":
        return cvseq_toks(s[1]) + [("(", "(")] + opad_toks(s[2]) + nlist_toks(s[3]) + [(")", ")")] + opad_toks(s[4])
    if k == "cvp":
        return [("(", "(")] + opad_toks(s[1]) + nlist_toks(s[2]) + [(")", ")")] + opad_toks(s[3])
    raise ValueError(s)


def cvseq_prog(s):
    k = s[0]
    if k == "cvl":
        return nlist_prog(s[1]) + ["cvl"]
    if k == "cvr":
        return cvseq_prog(s[1]) + [real_prog(s[2])] + opad_prog(s[3]) + ["cvr"]
    if k == "cvn":
        return cvseq_prog(s[1]) + nitem_prog(s[2]) + opad_prog(s[3]) + ["cvn"]
    if k == "cvg":
        return cvseq_prog(s[1]) + opad_prog(s[2]) + nlist_prog(s[3]) + opad_prog(s[4]) + ["cvg"]
    return opad_prog(s[1]) + nlist_prog(s[2]) + opad_prog(s[3]) + ["cvp"]


def sep_toks(s):
    if s[0] == "seppad":
        return pad_toks(s[1])
    return opad_toks(s[1]) + [("=", "=")] + opad_toks(s[2])


def sep_prog(s):
    if s[0] == "seppad":
        return pad_prog(s[1]) + ["seppad"]
    return opad_prog(s[1]) + opad_prog(s[2]) + ["sepeq"]


def parts_toks(ps):
    out = []
    for n, p in enumerate(ps):
        out += [(":", ":") if n == 0 else (",", ","), p]
    return out


def cparam_toks(c):
    _, star, key, num, parts, sep, val = c
    return ([("*", "*")] if star else []) + [("KEYWORD", key)] + ([("NUMBER", str(num))] if num is not None else []) \
        + parts_toks([("PARTICLE", p) for p in parts]) + sep_toks(sep) + cvseq_toks(val)


def strs_prog(l):
    return ",".join(hx(x) for x in l) if l else "-"


def cparam_prog(c):
    _, star, key, num, parts, sep, val = c
    return sep_prog(sep) + cvseq_prog(val) + ["cp:%d:%s:%s:%s" % (1 if star else 0, hx(key), "-" if num is None else num, strs_prog(parts))]


def mat_toks(m):
    if m[0] == "void":
        return [num_tok(m[1])] + pad_toks(m[2])
    return [num_tok(m[1])] + pad_toks(m[2]) + [num_tok(m[3])] + pad_toks(m[4])


def mat_prog(m):
    if m[0] == "void":
        return [real_prog(m[1])] + pad_prog(m[2]) + ["void"]
    return [real_prog(m[1])] + pad_prog(m[2]) + [real_prog(m[3])] + pad_prog(m[4]) + ["mat"]


# ----------------------------------------------------------------------------- data classifier etc.
KEYWORDS = PARTICLES = None


def _tables():
    global KEYWORDS, PARTICLES
    if KEYWORDS is None:
        from montepy.input_parser import tokens
        KEYWORDS = set(tokens.MCNP_Lexer._KEYWORDS)
        PARTICLES = set(tokens.ParticleLexer._PARTICLES)


def word_class(w):
    """ParticleLexer.TEXT on a lower-case word: the tables are read from the MontePy under test"""
    _tables()
    if w in KEYWORDS:
        return "KEYWORD"
    if w in PARTICLES:
        return "PARTICLE"
    return "TEXT"


def dpart_tok(p):
    return ("PARTICLE_SPECIAL" if p[0] else "PARTICLE", p[1])


def dcls_toks(d):
    md, pfx, num, parts = d
    return ([("PARTICLE_SPECIAL", md)] if md is not None else []) + [(word_class(pfx), pfx)] \
        + ([("NUMBER", str(num))] if num is not None else []) + parts_toks([dpart_tok(p) for p in parts])


def dcls_args(d):
    md, pfx, num, parts = d
    ps = ",".join(("!" if s else "") + hx(t) for s, t in parts) if parts else "-"
    return "%s:%s:%s:%s" % ("-" if md is None else hx(md), hx(pfx), "-" if num is None else num, ps)


def ptok_toks(p):
    return [dpart_tok(p)] + opad_toks(p[2])


def ptok_prog(p):
    return opad_prog(p[2]) + ["pt:%d:%s" % (1 if p[0] else 0, hx(p[1]))]


def ddata_toks(d):
    k = d[0]
    if k == "dnone":
        return []
    if k == "dnums":
        return nlist_toks(d[1])
    if k == "dparts":
        return sum((ptok_toks(p) for p in d[1]), [])
    return [("PARTICLE", d[1])] + pad_toks(d[2]) + nlist_toks(d[3])


def ddata_prog(d):
    k = d[0]
    if k == "dnone":
        return ["dnone"]
    if k == "dnums":
        return nlist_prog(d[1]) + ["dnums"]
    if k == "dparts":
        out = ptok_prog(d[1][0]) + ["pts0"]
        for p in d[1][1:]:
            out += ptok_prog(p) + ["ptsadd"]
        return out + ["dparts"]
    return pad_prog(d[2]) + nlist_prog(d[3]) + ["dopt:" + hx(d[1])]


def dparam_toks(p):
    if p[0] == "dp":
        return [(word_class(p[1]), p[1])] + sep_toks(p[2]) + nlist_toks(p[3])
    return [(word_class(p[1]), p[1])] + sep_toks(p[2]) + [("TEXT", p[3])] + opad_toks(p[4])


def dparam_prog(p):
    if p[0] == "dp":
        return sep_prog(p[2]) + nlist_prog(p[3]) + ["dp:" + hx(p[1])]
    return sep_prog(p[2]) + opad_prog(p[4]) + ["dpw:%s:%s" % (hx(p[1]), hx(p[3]))]


def titem_toks(t):
    if t[0] == "tin":
        return nlist_toks(t[1])
    return [("(", "(")] + opad_toks(t[1]) + nlist_toks(t[2]) + [(")", ")")] + opad_toks(t[3])


def titem_prog(t):
    if t[0] == "tin":
        return nlist_prog(t[1]) + ["tin"]
    return opad_prog(t[1]) + nlist_prog(t[2]) + opad_prog(t[3]) + ["tig"]


def sval_toks(v):
    if v[0] == "svn":
        return nlist_toks(v[1])
    if v[0] == "svp":
        return ptok_toks(v[1])
    return [("PARTICLE", "d"), num_tok(v[1])] + opad_toks(v[2])


def sval_prog(v):
    if v[0] == "svn":
        return nlist_prog(v[1]) + ["svn"]
    if v[0] == "svp":
        return ptok_prog(v[1]) + ["svp"]
    return [real_prog(v[1])] + opad_prog(v[2]) + ["svd"]


def zfrac_toks(z):
    _, lib, zz, p, fr, tr = z
    return [("ZAID" if lib else "NUMBER", zz)] + opad_toks(p) + [num_tok(fr)] + opad_toks(tr)


def mparam_toks(m):
    if m[0] == "mpn":
        return [("KEYWORD", m[1])] + sep_toks(m[2]) + nlist_toks(m[3])
    return [("KEYWORD", m[1])] + sep_toks(m[2]) + [("NUMBER_WORD", m[3])] + opad_toks(m[4])


def list_prog(items, f, zero, add):
    out = [zero]
    for x in items:
        out += f(x) + [add]
    return out


# ----------------------------------------------------------------------------- whole shapes
def toks(sh):
    k = sh[0]
    if k == "cell":
        _, lead, num, pad, mat, geom, params = sh
        return opad_toks(lead) + [num_tok(num)] + pad_toks(pad) + mat_toks(mat) + expr_toks(geom) \
            + sum((cparam_toks(c) for c in params), [])
    if k == "surf":
        _, lead, mod, num, p1, ptr, mn, p2, data = sh
        if mod == "*":
            head = [("*", "*"), num_tok(num)]
        elif mod == "+":
            head = [num_tok(["r", "p"] + num[2:])]
        else:
            head = [num_tok(num)]
        return opad_toks(lead) + head + pad_toks(p1) + ([num_tok(ptr[0])] + pad_toks(ptr[1]) if ptr else []) \
            + [("SURFACE_TYPE", mn)] + pad_toks(p2) + nlist_toks(data)
    if k == "data":
        _, lead, cls, pad, kw, dd, params = sh
        return opad_toks(lead) + dcls_toks(cls) + opad_toks(pad) \
            + ([("KEYWORD", kw[0])] + pad_toks(kw[1]) if kw else []) + ddata_toks(dd) \
            + sum((dparam_toks(p) for p in params), [])
    if k == "tally":
        _, seg, lead, cls, pad, items, end = sh
        return opad_toks(lead) + dcls_toks(cls) + opad_toks(pad) + sum((titem_toks(t) for t in items), []) \
            + ([("PARTICLE", end[0])] + opad_toks(end[1]) if end else [])
    if k == "sdef":
        _, lead, cls, pad, params = sh
        return opad_toks(lead) + dcls_toks(cls) + pad_toks(pad) \
            + sum(([("KEYWORD", p[1])] + sep_toks(p[2]) + sval_toks(p[3]) for p in params), [])
    if k == "text":
        _, lead, source, txt = sh
        return opad_toks(lead) + [("SOURCE_COMMENT" if source else "TALLY_COMMENT", txt)]
    if k == "mcard":
        _, lead, num, pad, zs, ps = sh
        return opad_toks(lead) + [("TEXT", "m"), ("NUMBER", str(num))] + opad_toks(pad) \
            + sum((zfrac_toks(z) for z in zs), []) + sum((mparam_toks(m) for m in ps), [])
    if k == "mtcard":
        _, lead, num, pad, laws = sh
        return opad_toks(lead) + [("TEXT", "mt"), ("NUMBER", str(num))] + opad_toks(pad) \
            + sum(([("THERMAL_LAW", l[0])] + opad_toks(l[1]) for l in laws), [])
    raise ValueError(k)


def representable(sh):
    """False for the G_core sentences the Coq shape type cannot express (rendered here only)"""
    if sh[0] == "sdef" and not sh[4]:
        return False
    return True


def prog(sh):
    k = sh[0]
    if k == "cell":
        _, lead, num, pad, mat, geom, params = sh
        return opad_prog(lead) + [real_prog(num)] + pad_prog(pad) + mat_prog(mat) + expr_prog(geom) \
            + list_prog(params, cparam_prog, "cps0", "cpsadd") + ["cell"]
    if k == "surf":
        _, lead, mod, num, p1, ptr, mn, p2, data = sh
        return opad_prog(lead) + [real_prog(num)] + pad_prog(p1) \
            + ([real_prog(ptr[0])] + pad_prog(ptr[1]) + ["ptr"] if ptr else ["noptr"]) + pad_prog(p2) \
            + nlist_prog(data) + ["surf:%s:%s" % (mod or "-", hx(mn))]
    if k == "data":
        _, lead, cls, pad, kw, dd, params = sh
        return opad_prog(lead) + opad_prog(pad) + (pad_prog(kw[1]) + ["kw:" + hx(kw[0])] if kw else ["nokw"]) \
            + ddata_prog(dd) + list_prog(params, dparam_prog, "dps0", "dpsadd") + ["data:" + dcls_args(cls)]
    if k == "tally":
        _, seg, lead, cls, pad, items, end = sh
        return opad_prog(lead) + opad_prog(pad) + titem_prog(items[0]) \
            + list_prog(items[1:], titem_prog, "tis0", "tisadd") + opad_prog(end[1] if end else None) \
            + ["tally:%d:%s:%s" % (1 if seg else 0, dcls_args(cls), hx(end[0]) if end else "-")]
    if k == "sdef":
        _, lead, cls, pad, params = sh

        def sp(p):
            return sep_prog(p[2]) + sval_prog(p[3]) + ["spar:" + hx(p[1])]
        return opad_prog(lead) + pad_prog(pad) + sp(params[0]) + list_prog(params[1:], sp, "sps0", "spsadd") \
            + ["sdef:" + dcls_args(cls)]
    if k == "text":
        _, lead, source, txt = sh
        return opad_prog(lead) + ["text:%d:%s" % (1 if source else 0, hx(txt))]
    if k == "mcard":
        _, lead, num, pad, zs, ps = sh

        def zp(z):
            return opad_prog(z[3]) + [real_prog(z[4])] + opad_prog(z[5]) + ["zaid:%d:%s" % (1 if z[1] else 0, hx(z[2]))]

        def mp(m):
            if m[0] == "mpn":
                return sep_prog(m[2]) + nlist_prog(m[3]) + ["mpn:" + hx(m[1])]
            return sep_prog(m[2]) + opad_prog(m[4]) + ["mpl:%s:%s" % (hx(m[1]), hx(m[3]))]
        return opad_prog(lead) + opad_prog(pad) + zp(zs[0]) + list_prog(zs[1:], zp, "zs0", "zsadd") \
            + list_prog(ps, mp, "mps0", "mpsadd") + ["mcard:%d" % num]
    if k == "mtcard":
        _, lead, num, pad, laws = sh

        def lp(l):
            return opad_prog(l[1]) + ["law:" + hx(l[0])]
        return opad_prog(lead) + opad_prog(pad) + lp(laws[0]) + list_prog(laws[1:], lp, "laws0", "lawsadd") \
            + ["mtcard:%d" % num]
    raise ValueError(k)


def apply_mask(mask, ts):
    """token i is written in upper case when bit (i mod |mask|) of the mask is '1'"""
    if not mask:
        return list(ts)
    return [(c, t.upper() if mask[i % len(mask)] == "1" else t) for i, (c, t) in enumerate(ts)]


def render(sh, mask="0"):
    return "".join(t for _, t in apply_mask(mask, toks(sh)))


BLOCK = {"cell": "cell", "surf": "surface", "data": "data", "tally": "data", "sdef": "data", "text": "data",
         "mcard": "data", "mtcard": "data"}
PARSER = {"cell": "cell", "surf": "surface", "data": "data", "sdef": "param_only", "text": "data",
          "mcard": "material", "mtcard": "thermal"}


def parser_of(sh):
    if sh[0] == "tally":
        return "tally_seg" if sh[1] else "tally"
    return PARSER[sh[0]]
