"""findings_Spec.py — trigger predicates of the open known findings registered by harness/spec_tie.py
(findings/Spec.entries.json, property C01): the four places where MontePy's line reader deviates from MCNP's
card rules (coq/Spec/Cards.v) on files the format allows; Coq witnesses: Properties/C01Spec.v, C01_split_deviations.

A case is {"kind": "reader-differs-from-rules", "width": w, "text": <file as latin-1 text>, ...}.
Every predicate decides from the file (does it contain the triggering feature?) and then confirms that the file with
the features of the four findings repaired (nothing else changed) is read by the real reader exactly as the rules
say: another deviation in the same file is therefore not attributed.
"""
import re

import spec

KIND = "reader-differs-from-rules"
KIND_RT = "roundtrip-changes-title"
_BARE_C = re.compile(r"^ {1,4}[cC]$")


def _uncut(raw):
    raw = raw.rstrip("\r").expandtabs(8)
    return "".join(ch if ord(ch) < 127 else " " for ch in raw)


def _scan(text, w):
    """-> (raw lines, [(index, physical line, uncut line, block number)] for the lines of the three blocks)"""
    raws = text.split("\n")
    if raws and raws[-1] == "":
        raws.pop()
    phys = [_uncut(r)[:w] for r in raws]
    i = 0
    if phys and phys[0].upper().startswith("MESSAGE:"):
        while i < len(phys) and phys[i].strip(" ") != "":
            i += 1
        i += 1
    i += 1                                  # the title line
    body = []
    nb = 0
    while i < len(raws) and nb < 3:
        body.append((i, phys[i], _uncut(raws[i]), nb))
        if phys[i].strip(" ") == "":
            nb += 1
        i += 1
    return raws, body


def _join(raws, text):
    return "\n".join(raws) + ("\n" if text.endswith("\n") else "")


# ---------------------------------------------------------------------------- features
def amp_dollar_lines(text, w):
    raws, body = _scan(text, w)
    return [i for i, p, u, nb in body
            if p.strip(" ") and not spec.is_comment_line(p) and "$" in p
            and p.split("$")[0].rstrip(" ").endswith(" &")]


def comment_only_blocks(text, w):
    """indices of the comment lines of blocks that hold comment lines only"""
    raws, body = _scan(text, w)
    hits, cur, has_data = [], [], False
    for i, p, u, nb in body + [(None, "", "", None)]:
        if p.strip(" ") == "":
            if cur and not has_data:
                hits += cur
            cur, has_data = [], False
        elif spec.is_comment_line(p):
            cur.append(i)
        else:
            has_data = True
    return hits


def beyond_limit_lines(text, w):
    raws, body = _scan(text, w)
    return [i for i, p, u, nb in body if p.strip(" ") == "" and u.strip(" ") != ""]


def unterminated_bare_c(text, w):
    if text.endswith("\n") or not text:
        return False
    raws, body = _scan(text, w)
    return bool(body) and body[-1][0] == len(raws) - 1 and bool(_BARE_C.match(body[-1][1]))


# ---------------------------------------------------------------------------- repairs
def repair_all(text, w):
    """the file without the four features: '$' comments after a mark removed, comment-only blocks emptied, text
    beyond the limit of blank-within-the-limit lines removed, the final bare c terminated"""
    if unterminated_bare_c(text, w):
        text = text + "\n"
    raws, _ = _scan(text, w)
    for i in amp_dollar_lines(text, w):
        cr = "\r" if raws[i].endswith("\r") else ""
        raws[i] = raws[i][:raws[i].index("$")].rstrip(" \t") + cr
    for i in beyond_limit_lines(text, w):
        raws[i] = "\r" if raws[i].endswith("\r") else ""
    drop = set(comment_only_blocks(text, w))
    raws = [r for i, r in enumerate(raws) if i not in drop]
    return _join(raws, text)


def _confirmed(case):
    """the repaired file is well-formed (C01_split_agrees applies) and the real reader reads it as the rules say"""
    import spec_tie
    text, w = case["text"], case["width"]
    fixed = repair_all(text, w)
    if fixed == text:
        return False
    a = spec_tie.ask(["wf %d %s" % (w, spec_tie.hx(fixed)), "cards %d %s" % (w, spec_tie.hx(fixed))])
    if a[0] != "1":
        return False
    return spec_tie.real_view(fixed.encode("latin-1"), w) == spec_tie.model_view(a[1])


def _is_case(case):
    return case.get("kind") == KIND and "text" in case and "width" in case


def C01_spec_amp_dollar(case, params):
    """F-C01-spec-amp-dollar"""
    return _is_case(case) and bool(amp_dollar_lines(case["text"], case["width"])) and _confirmed(case)


def C01_spec_comment_only_block(case, params):
    """F-C01-spec-comment-only-block"""
    return _is_case(case) and bool(comment_only_blocks(case["text"], case["width"])) and _confirmed(case)


def C01_spec_blank_within_limit(case, params):
    """F-C01-spec-blank-within-limit"""
    return _is_case(case) and bool(beyond_limit_lines(case["text"], case["width"])) and _confirmed(case)


def C01_spec_unterminated_bare_c(case, params):
    """F-C01-spec-unterminated-bare-c"""
    return _is_case(case) and unterminated_bare_c(case["text"], case["width"]) and _confirmed(case)


def C01_spec_title_last_column(case, params):
    """F-C01-spec-title-last-column: the title line (no message block) has a non-blank character in column w (80 or 128;
    any content, e.g. a trailing '&'; tabs expanded, text beyond column w ignored), and what is written is that title
    without the character in column w (and without the blanks that then end it)"""
    if case.get("kind") != KIND_RT or "text" not in case:
        return False
    w = case["width"]
    raws = case["text"].split("\n")
    if not raws:
        return False
    t = _uncut(raws[0])[:w].rstrip(" ")
    if t.upper().startswith("MESSAGE:") or len(t) != w:
        return False
    # what is written is right-stripped again (write_to_file), so blanks before the lost character go as well
    return case.get("title_read") == t and case.get("title_written") == t[:-1].rstrip(" ")
