"""treedump.py — dumps a real MontePy syntax tree into the prefix notation read by
coq/Model/Tree.v (run_Tree).  The walker decides, per node class, which generic model node
it is (table in DESIGN.md §14.3):

  ValueNode      -> V tok pad never_pad has_value edit   (edit = the leaf's own format() when its
                                                           value changed: the rendering is Num's business)
  PaddingNode    -> P text            CommentNode lives inside padding text
  ShortcutNode, ParticleNode, anything unknown -> O formatted-text (opaque leaf)
  SyntaxNode     -> S children (dict order)        ListNode -> L children
  GeometryTree, ClassifierNode (fields in format order, present iff truthy), ParametersNode,
  IsotopesNode (pairs flattened) -> C children
"""
from montepy.input_parser import syntax_node as sn


def hx(s):
    return s.encode("latin-1", "replace").hex() if s else "-"


def dump(node, out=None, leading=None):
    out = [] if out is None else out
    if isinstance(node, sn.ValueNode):
        tok = node._token if node._token is not None else ""
        pad = node.padding
        padw = "N" if pad is None else hx(pad.format())
        changed = bool(node._value_changed)
        ed = ("E" + (node.format().encode("latin-1", "replace").hex())) if changed else "-"
        out += ["V", hx(str(tok)), padw, "1" if node.never_pad else "0",
                "1" if node.value is not None else "0", ed]
    elif isinstance(node, sn.PaddingNode):
        out += ["P", hx(node.format())]
    elif isinstance(node, sn.ShortcutNode):
        if leading is not None:
            out += ["O", hx(node.format(leading))]
        else:
            out += ["O", hx(node.format())]
    elif isinstance(node, sn.ParticleNode):
        out += ["O", hx(node.format())]
    elif isinstance(node, sn.ListNode):
        out += ["L", str(len(node.nodes))]
        last = None
        for ch in node.nodes:
            lead = last if (isinstance(last, sn.ShortcutNode) and isinstance(ch, sn.ShortcutNode)
                            and getattr(ch, "_shares_edge", True)) else None
            dump(ch, out, lead)
            last = ch
    elif isinstance(node, sn.GeometryTree):
        ch = list(node.nodes.values())
        out += ["C", str(len(ch))]
        for c in ch:
            dump(c, out)
    elif isinstance(node, sn.ClassifierNode):
        ch = []
        if node.modifier:
            ch.append(node.modifier)
        ch.append(node.prefix)
        if node.number:
            ch.append(node.number)
        if node.particles:
            ch.append(node.particles)
        if node.padding:
            ch.append(node.padding)
        out += ["C", str(len(ch))]
        for c in ch:
            dump(c, out)
    elif isinstance(node, sn.ParametersNode):
        ch = list(node.nodes.values())
        out += ["C", str(len(ch))]
        for c in ch:
            dump(c, out)
    elif isinstance(node, sn.IsotopesNode):
        ch = []
        for iso, conc in node.nodes:
            ch += [iso, conc]
        out += ["C", str(len(ch))]
        for c in ch:
            dump(c, out)
    elif isinstance(node, sn.SyntaxNode):
        ch = list(node.nodes.values())
        out += ["S", str(len(ch))]
        for c in ch:
            dump(c, out)
    elif isinstance(node, str):
        out += ["P", hx(node)]
    else:
        out += ["O", hx(node.format())]
    return out


def request(cmd, node):
    return cmd + " " + " ".join(dump(node))


def stats(words):
    d = {}
    for w in words:
        if w in ("V", "P", "O", "S", "L", "C"):
            d[w] = d.get(w, 0) + 1
    return d
