"""treedump.py — dumps a real MontePy syntax tree into the prefix notation read by
coq/Model/Tree.v (run_Tree).  The walker decides, per node class, which model node it is:

  ValueNode      -> V tok pad never_pad has_value edit vlen
                    pad   = N (no PaddingNode) | comma separated pieces s<hex> (str) / c<hex> (CommentNode), '-' = empty
                    edit  = E<hex of the rendering of the new value WITHOUT padding> when the value changed
                            (how a number is spelled is Model/Num.v's business, property C05), '-' otherwise
                    vlen  = the formatter's value_length once it was reverse engineered (or for a node
                            without a token: it never is), N otherwise
  PaddingNode    -> P pieces
  ShortcutNode   -> K hex(formatted text)          (opaque; the model only knows ListNode's blank after it)
  ParticleNode   -> T upper order particles        (hex, comma separated; particles sorted like the source does)
  SyntaxNode     -> S children (dict order)        ListNode -> L children
  GeometryTree, ClassifierNode (fields in format order, present iff truthy), ParametersNode,
  IsotopesNode (pairs flattened) -> C children
  anything else  -> O hex(formatted text)
"""
import copy
import warnings

from montepy.input_parser import syntax_node as sn


def hx(s):
    return s.encode("latin-1", "replace").hex() if s else "-"


def pieces(pad):
    out = []
    for n in pad.nodes:
        if isinstance(n, str):
            out.append("s" + n.encode("latin-1", "replace").hex())
        else:
            out.append("c" + n.format().encode("latin-1", "replace").hex())
    return ",".join(out) if out else "-"


def new_value_text(node):
    """the rendering of a changed value without the field logic: a clone without padding and field width"""
    c = copy.copy(node)
    c._formatter = dict(node._formatter)
    c._padding = None
    c._nodes = [c]
    with warnings.catch_warnings():
        warnings.simplefilter("ignore")
        if c._token is not None and not c._is_reversed:
            c._reverse_engineer_formatting()
        c._formatter["value_length"] = 0
        return c.format()


def dump(node, out=None, leading=None):
    out = [] if out is None else out
    if isinstance(node, sn.ValueNode):
        # (a node without token only prints when its value changed; unchanged it is skipped by SyntaxNode.format)
        tok = f"{node._token}" if node._token is not None else ""
        pad = node.padding
        padw = "N" if pad is None else pieces(pad)
        changed = bool(node._value_changed)
        ed = ("E" + new_value_text(node).encode("latin-1", "replace").hex()) if changed else "-"
        if node._token is None or node._is_reversed:
            vl = str(int(node._formatter["value_length"]))
        else:
            vl = "N"
        out += ["V", hx(tok), padw, "1" if node.never_pad else "0",
                "1" if node.value is not None else "0", ed, vl]
    elif isinstance(node, sn.PaddingNode):
        out += ["P", pieces(node)]
    elif isinstance(node, sn.ShortcutNode):
        with warnings.catch_warnings():
            warnings.simplefilter("ignore")
            out += ["K", hx(node.format(leading) if leading is not None else node.format())]
    elif isinstance(node, sn.ParticleNode):
        node._reverse_engineer_format()
        order = ",".join(p.value.encode("latin-1").hex() for p in node._order) or "-"
        parts = ",".join(p.value.encode("latin-1").hex() for p in sorted(node.particles)) or "-"
        out += ["T", "1" if node._formatter["upper"] else "0", order, parts]
    elif isinstance(node, sn.ListNode):
        out += ["L", str(len(node.nodes))]
        last = None
        for ch in node.nodes:
            lead = last if (isinstance(last, sn.ShortcutNode) and isinstance(ch, sn.ShortcutNode)
                            and getattr(ch, "_shares_edge", True)) else None
            dump(ch, out, lead)
            last = ch
    elif isinstance(node, sn.GeometryTree):
        ch = list(node.nodes.values())
        out += ["C", str(len(ch))]
        for c in ch:
            dump(c, out)
    elif isinstance(node, sn.ClassifierNode):
        ch = []
        if node.modifier:
            ch.append(node.modifier)
        ch.append(node.prefix)
        if node.number:
            ch.append(node.number)
        if node.particles:
            ch.append(node.particles)
        if node.padding:
            ch.append(node.padding)
        out += ["C", str(len(ch))]
        for c in ch:
            dump(c, out)
    elif isinstance(node, sn.ParametersNode):
        ch = list(node.nodes.values())
        out += ["C", str(len(ch))]
        for c in ch:
            dump(c, out)
    elif isinstance(node, sn.IsotopesNode):
        ch = []
        for iso, conc in node.nodes:
            ch += [iso, conc]
        out += ["C", str(len(ch))]
        for c in ch:
            dump(c, out)
    elif isinstance(node, sn.SyntaxNode):
        ch = list(node.nodes.values())
        out += ["S", str(len(ch))]
        for c in ch:
            dump(c, out)
    elif isinstance(node, str):
        out += ["P", "s" + node.encode("latin-1", "replace").hex() if node else "-"]
    else:
        out += ["O", hx(node.format())]
    return out


def request(cmd, node):
    return cmd + " " + " ".join(dump(node))


def cell_request(cell, version):
    """the parts of a cell for the model's parameter loop (Cell.format_for_mcnp_input), and the text the real
    method hands to the line wrapper.  -> (request, real_text)"""
    import montepy
    with warnings.catch_warnings():
        warnings.simplefilter("ignore")
        cell.validate()
        cell._update_values()
        modifier_keywords = {cls._class_prefix(): cls for cls in cell._INPUTS_TO_PROPERTY.keys()}
        words = ["cell"]
        for key, node in cell._tree.nodes.items():
            if key != "parameters":
                words += ["N"] + dump(node)
                continue
            printed_importance = False
            for param in node.nodes.values():
                prefix = param["classifier"].prefix.value.lower()
                if prefix in modifier_keywords:
                    attr, _ = cell._INPUTS_TO_PROPERTY[modifier_keywords[prefix]]
                    if attr == "_importance" and printed_importance:
                        continue
                    mod = getattr(cell, attr)
                    text = mod._format_as_text(version)
                    if attr == "_importance" and (text or not hasattr(cell, "_comments_after")):
                        printed_importance = True      # 3eacc4c: only an importance that is written counts
                    if not text and mod.set_in_cell_block and hasattr(cell, "_comments_after"):
                        # a parameter that is written in the data block leaves its comments in the cell
                        text = cell._comments_after(param)
                    words += ["M", hx(text)]
                else:
                    words += ["R"] + dump(param)
        captured = []
        orig = montepy.mcnp_object.MCNP_Object.wrap_string_for_mcnp

        def capture(string, mcnp_version, is_first_line):
            captured.append(string)
            return orig(string, mcnp_version, is_first_line)
        montepy.mcnp_object.MCNP_Object.wrap_string_for_mcnp = staticmethod(capture)
        try:
            cell.format_for_mcnp_input(version)
        finally:
            montepy.mcnp_object.MCNP_Object.wrap_string_for_mcnp = staticmethod(orig)
    return " ".join(words), (captured[-1] if captured else None)


def stats(words):
    d = {}
    for w in words:
        if w in ("V", "P", "O", "K", "T", "S", "L", "C"):
            d[w] = d.get(w, 0) + 1
    return d
