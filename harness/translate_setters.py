"""translate_setters.py — /repo/montepy  ->  coq/Gen/Setters.v  (+ _build/gen/setters.json for the harness)

Python `ast` only; nothing is imported from montepy.  Fail closed: source shapes that are not
recognised raise TranslateError (the check reports a broken obligation), never a silent skip.

What is emitted (DESIGN.md §4.1 "Gen/Setters.v"; consumed by Properties/C14.v and C17.v):

  class_table      every class of montepy with the names of all its ancestors (isinstance table)
  iter_classes     classes that define or inherit __iter__
  tmpl_val_node / tmpl_pointer
                   the setter closure of make_prop_val_node / make_prop_pointer, statement by
                   statement (latch | local default, type check, conversion, validator, assignment)
  prop_table       one record per use of the two decorators (class, property, hidden_param, declared
                   types incl. the special `()`, base_type, validator, deletable)
  validator_table  the IR of every validator named by a decorator use
  setter_table     the IR of every hand-written public setter / deleter / mutator in scope
                   (property setters outside input_parser/, plus the methods listed in METHODS)
  coll_mutators    public mutating methods of NumberedObjectCollection (modelled in Model/Coll.v)
  restart_clears_log, sly_parse_restarts, read_resets_queue, parser_log_shared   (C17 globals)

IR (coq/Model/Setter.v): SCheckInst / SCheck / SRaise / SConvert / SIter / SMutate / SCall /
SInline / SLoop / SBranch / SReturn, in source order, calls to other MontePy setters / validators /
helpers inlined (depth <= 4), everything else an SCall with (may_raise, may_mutate, atomic) flags
taken from CALL_FACTS below (unknown callee = may raise and may mutate, not atomic).
The facts and hints below are *claims of the translator*; the check validates them at run time by
tracing the real setters (props/C14.py: the line a real exception comes from must be a may-raise
statement of the IR, a changed snapshot needs an executed mutation, inlined callees must be the
functions really entered).
"""
import ast
import json
import os

import vlib

REPO = vlib.REPO
SRC = os.path.join(REPO, "montepy")
OUT_V = os.path.join(vlib.COQ, "Gen", "Setters.v")
OUT_JSON = os.path.join(vlib.BUILD, "gen", "setters.json")


class TranslateError(Exception):
    pass


# ------------------------------------------------------------------------------------------------
# scope
# ------------------------------------------------------------------------------------------------
# hand-written public mutators that are not property setters (class, method)
METHODS = [
    ("Mode", "set"), ("Mode", "add"), ("Mode", "remove"),
    ("MCNP_Problem", "set_mode"),
    ("Universe", "claim"),
    ("Cells", "set_equal_importance"),
    ("Importance", "__setitem__"), ("Importance", "__delitem__"),
    ("CellDataPrintController", "__setitem__"),
    ("ThermalScatteringLaw", "add_scattering_law"),
    ("Material", "add_thermal_scattering"),
]
# public methods that assign to self but are reading / writing / linking machinery, not edits a user
# makes on a problem (each is another property's business); anything public, mutating, taking an
# argument and in neither list makes the translator fail.
EXCLUDED = {
    ("Cell", "update_pointers"): "pointer resolution after reading (C16)",
    ("Cells", "update_pointers"): "pointer resolution after reading (C16)",
    ("Surface", "update_pointers"): "pointer resolution after reading (C16)",
    ("HalfSpace", "update_pointers"): "pointer resolution after reading (C16)",
    ("UnitHalfSpace", "update_pointers"): "pointer resolution after reading (C16)",
    ("Material", "update_pointers"): "pointer resolution after reading (C16)",
    ("ThermalScatteringLaw", "update_pointers"): "pointer resolution after reading (C16)",
    ("Cell", "remove_duplicate_surfaces"): "duplicate-surface removal (C18)",
    ("UnitHalfSpace", "remove_duplicate_surfaces"): "duplicate-surface removal (C18)",
    ("MCNP_Problem", "remove_duplicate_surfaces"): "duplicate-surface removal (C18)",
    ("MCNP_Problem", "parse_input"): "reading (C12/C13)",
    ("MCNP_Problem", "add_cell_children_to_problem"): "takes no argument; cannot be rejected (C16)",
    ("MCNP_Object", "link_to_problem"): "linking machinery; called by the collections",
    ("NumberedObjectCollection", "link_to_problem"): "linking machinery",
    ("CellModifierInput", "link_to_problem"): "linking machinery",
    ("Fill", "push_to_cells"): "reading machinery",
    ("Importance", "merge"): "reading machinery",
    ("NumberedObjectCollection", "get"): "look-up (cache refresh only; C06)",
}
# files whose classes are the syntax-tree / parser layer, not problem objects
SYNTAX_LAYER = ("input_parser/",)

COLLECTION_CLASS = "NumberedObjectCollection"

# ------------------------------------------------------------------------------------------------
# translator claims (validated by tracing, see module docstring)
# ------------------------------------------------------------------------------------------------
PURE_BUILTINS = {"isinstance", "type", "getattr", "hasattr", "id", "str", "repr", "bool", "callable",
                 "enumerate", "zip", "range", "iter", "print"}
ITER_BUILTINS = {"list", "set", "tuple", "dict", "frozenset", "sorted"}   # raise on a non-iterable argument
CONVERT_BUILTINS = {"float", "int"}
LOCAL_CONTAINER_METHODS = {"add", "append", "extend", "update", "clear", "discard", "insert", "copy", "split",
                           "upper", "lower", "strip", "items", "keys", "values", "format", "cycle"}
LOCAL_RAISING_METHODS = {"remove", "pop", "index"}

# (method name, receiver source or None = any) -> (may_raise, may_mutate, atomic, why)
CALL_FACTS = {
    ("check_number", None): (True, False, False,
                             "NumberedObjectCollection.check_number: raises TypeError/NumberConflictError; refreshes "
                             "only the number cache, which no look-up trusts (C06_lookup)"),
    ("clear", "self.cells"): (False, True, False, "NumberedObjectCollection.clear: no raise statement, no argument"),
    ("extend", "self.cells"): (True, True, True,
                               "NumberedObjectCollection.extend: raises before mutating (C06_conflict_atomic / "
                               "C06_type_error_atomic)"),
    ("append", "$n0"): (True, True, True,      # UnitHalfSpace.divider: container.append(div)
                              "NumberedObjectCollection.append: raises before mutating (C06_conflict_atomic / "
                              "C06_type_error_atomic)"),
    ("_add_new_children_to_cell", None): (True, True, False,
                                          "HalfSpace._add_new_children_to_cell: a loop of collection appends; a later "
                                          "append can raise NumberConflictError after earlier ones were done"),
    ("_generate_default_node", None): (True, False, False,
                                       "MCNP_Object._generate_default_node(str, value): builds a fresh ValueNode from "
                                       "str(value): touches no existing object, but str() of an arbitrary object can raise"),
    ("_generate_default_cell_tree", None): (False, True, False,
                                            "Importance._generate_default_cell_tree(particle): builds fresh nodes for a "
                                            "Particle already validated, stores them in self._tree / _particle_importances"),
    ("_link_to_cell", None): (False, True, False,
                              "HalfSpace._link_to_cell(cell): assigns _cell on this node and, recursively, on the sides that have "
                              "none yet; attribute reads and assignments on HalfSpace objects only, no raise statement"),
    ("_delete_trailing_comment", None): (False, True, False, "PaddingNode._delete_trailing_comment: list surgery, no raise"),
    ("clear", "self._scattering_laws"): (False, True, False, "list.clear"),
    ("append", "self._scattering_laws"): (False, True, False, "list.append"),
    ("add", "self._particles"): (False, True, False, "set.add of a Particle (hashable enum member)"),
    ("remove", "self._particles"): (True, True, True, "set.remove: KeyError before any change when absent"),
    ("split", "$0"): (False, False, False,     # Mode.set: particles.split()
                      "str.split on an argument already checked to be a str"),
    ("upper", None): (True, False, False, "str.upper on a value that need not be a str (AttributeError)"),
    ("lower", None): (False, False, False, "str.lower on a key already checked to be a str"),
    ("cycle", None): (False, False, False, "itertools.cycle of a literal list"),
    ("deepcopy", "copy"): (False, False, False,
                           "copy.deepcopy of a syntax tree: builds new objects only, touches no existing object"),
    ("remove", "$n0['classifier'].particles"): (False, True, False,   # _unshare_tree: tree['classifier'].particles.remove(particle)
                                                 "ParticleNode.remove(particle) on the classifier of the tree registered "
                                                 "for that particle: the classifier of a tree lists exactly the particles "
                                                 "it is registered for (parser; _unshare_tree keeps it so), in its set and "
                                                 "its order list, and `particle` passed the isinstance check of __setitem__"),
}


def _fresh_names(fd):
    """names bound in fd to a container created there ([] {} set() comprehension list(...))"""
    out = set()
    for n in ast.walk(fd):
        if isinstance(n, ast.Assign) and len(n.targets) == 1 and isinstance(n.targets[0], ast.Name):
            v = n.value
            if isinstance(v, (ast.List, ast.Dict, ast.Set, ast.ListComp, ast.SetComp, ast.DictComp)) or (
                    isinstance(v, ast.Call) and isinstance(v.func, ast.Name) and v.func.id in ("set", "list", "dict")):
                out.add(n.targets[0].id)
    return out


def two_phase(fd):
    """does the function raise only before its first change of an existing object?  (every `raise` statement
    stands above the first call of append / extend / add / insert / remove on something not created in the
    function, and above the first assignment to an attribute or item of such a thing)"""
    fresh = _fresh_names(fd)
    raises = [n.lineno for n in ast.walk(fd) if isinstance(n, ast.Raise)]
    muts = []
    for n in ast.walk(fd):
        if isinstance(n, ast.Call) and isinstance(n.func, ast.Attribute) and n.func.attr in (
                "append", "extend", "add", "insert", "remove", "pop", "clear", "update"):
            r = n.func.value
            while isinstance(r, (ast.Attribute, ast.Subscript)):
                r = r.value
            if not (isinstance(r, ast.Name) and r.id in fresh and isinstance(n.func.value, ast.Name)):
                muts.append(n.lineno)
        if isinstance(n, (ast.Assign, ast.AugAssign)):
            for t in (n.targets if isinstance(n, ast.Assign) else [n.target]):
                if isinstance(t, (ast.Attribute, ast.Subscript)):
                    r = t
                    while isinstance(r, (ast.Attribute, ast.Subscript)):
                        r = r.value
                    if not (isinstance(r, ast.Name) and r.id in fresh):
                        muts.append(n.lineno)
    return bool(raises) and bool(muts) and max(raises) < min(muts)


def cannot_raise_shape(fd):
    """a function that only walks object graphs: no raise / assert / subscript / arithmetic / ordering comparison, and
    every call is isinstance(...), a call of itself, or .values() / .items() / .keys() — nothing in it can raise on
    objects that have the attributes it reads (the trace walk validates that on the calls a run makes)"""
    for n in ast.walk(fd):
        if isinstance(n, (ast.Raise, ast.Assert, ast.Subscript, ast.BinOp, ast.Try, ast.While, ast.Delete)):
            return False
        if isinstance(n, ast.Compare) and any(isinstance(o, (ast.Lt, ast.LtE, ast.Gt, ast.GtE)) for o in n.ops):
            return False
        if isinstance(n, ast.Call):
            f = n.func
            ok = (isinstance(f, ast.Name) and f.id == "isinstance") or (
                isinstance(f, ast.Attribute) and f.attr in (fd.name, "values", "items", "keys"))
            if not ok:
                return False
    return True


MUTATING_METHODS = {"add", "append", "extend", "update", "clear", "discard", "insert", "remove", "pop", "popitem",
                    "setdefault", "sort", "reverse"}
PURE_CONTAINER_METHODS = {"items", "keys", "values", "copy", "get"}
# constructors of MontePy classes used inside setters: (may_raise, may_mutate)
CTOR_FACTS = {
    "Cells": (True, False, "Cells(list): TypeError / NumberConflictError while building a *new* collection; "
                           "the candidates themselves are not modified (constructor does not link)"),
    "Materials": (True, False, "Materials(list): as Cells"),
    "Particle": (True, False, "Particle(str): ValueError for an unknown designator"),
    "Title": (True, False, "mcnp_input.Title([title], title): type checks of Input.__init__"),
    "ThermalScatteringLaw": (False, False, "ThermalScatteringLaw(material=self): from-scratch constructor, no input to parse"),
    "PaddingNode": (False, False, "syntax_node.PaddingNode(' ')"),
}
# subscripts that cannot raise where they stand: (class, function, source of the subscript expression)
SUBSCRIPT_FACTS = {
    # ($i: the index variable of an enclosing `for $i, x in enumerate(...)`, whatever it is called)
    ("CylinderParAxis", "coordinates", "self._coordinates[$i]"):
        "$i < len(coordinates) == 2 (checked above) and self._coordinates always has 2 nodes (both constructor paths)",
    # names in the keys: self, $0 $1 = parameters, $n0 $n1 = locals in binding order (FnCtx.alpha), $i = enumerate index
    ("Importance", "__setitem__", "self._particle_importances[$0]"):
        "key present: the statement above generates the tree when `particle not in self._particle_importances`",
    ("Importance", "__setitem__", "self._particle_importances[$0]['data']"):
        "every importance tree has a 'data' list (parser rule and _generate_default_cell_tree)",
    ("Importance", "__setitem__", "self._particle_importances[$0]['data'][0]"):
        "the 'data' list of a cell-level importance tree has exactly one value",
    ("Importance", "_set_all", "self._particle_importances[$n0]"):
        "key present: the statement above generates the tree when `particle not in self._particle_importances`",
    ("Importance", "_set_all", "self._particle_importances[$n0]['data']"):
        "every importance tree has a 'data' list",
    ("Importance", "_set_all", "self._particle_importances[$n0]['data'][0]"):
        "the 'data' list of a cell-level importance tree has exactly one value",
    ("Importance", "_unshare_tree", "self._particle_importances[$0]"):
        "key present: _unshare_tree is only called by __setitem__, after the statement that generates the tree when "
        "`particle not in self._particle_importances`",
    ("Importance", "_unshare_tree", "$n2['data']"):                    # $n2: new_tree
        "every importance tree has a 'data' list (copy of one)",
    ("Importance", "_unshare_tree", "$n2['data'][-1]"): "the 'data' list of an importance tree is never empty",
    ("Importance", "_unshare_tree", "$n2['classifier']"): "every importance tree has a 'classifier' node",
    ("Importance", "_unshare_tree", "$n0['classifier']"):              # $n0: tree
        "every importance tree has a 'classifier' node",
}
# class of a receiver expression, per (class of self, source)
RECEIVER_HINTS = {
    ("Cell", "self._universe"): "UniverseInput", ("Cell", "self._lattice"): "LatticeInput",
    ("Cell", "self._volume"): "Volume", ("Cells", "self._volume"): "Volume",
    ("MCNP_Problem", "self._mode"): "Mode",
    ("Cells", "$n1.importance"): "Importance",      # set_equal_importance: `for cell in self: cell.importance...`
    ("Universe", "$n0"): "Cell",                    # claim: `for cell in cells: cell.universe = self`
    ("Material", "self._thermal_scattering"): "ThermalScatteringLaw",
}
# attributes of self that hold plain Python containers (list/set/dict), per class
PLAIN_CONTAINERS = {("Mode", "_particles"), ("ThermalScatteringLaw", "_scattering_laws"),
                    ("CellDataPrintController", "_print_data"), ("Importance", "_particle_importances")}

MAX_INLINE = 4
DEBUG_KEYS = bool(os.environ.get("C14_DEBUG_KEYS"))


# ------------------------------------------------------------------------------------------------
# source index
# ------------------------------------------------------------------------------------------------
def tyname(node):
    """name of a type expression as used in isinstance(): last dotted component; type(None) -> NoneType"""
    if isinstance(node, ast.Name):
        return node.id
    if isinstance(node, ast.Attribute):
        base = tyname(node.value)
        if base in ("np", "numpy", "numbers"):
            return base.replace("numpy", "np") + "." + node.attr
        return node.attr
    if (isinstance(node, ast.Call) and isinstance(node.func, ast.Name) and node.func.id == "type"
            and len(node.args) == 1 and isinstance(node.args[0], ast.Constant) and node.args[0].value is None):
        return "NoneType"
    raise TranslateError("unrecognised type expression: " + ast.unparse(node))


def tylist(node):
    if isinstance(node, ast.Tuple):
        return [tyname(e) for e in node.elts]
    return [tyname(node)]


class Index:
    def __init__(self):
        self.classes = {}       # name -> dict(bases, file, node)
        self.modfuncs = {}      # (file, name) -> FunctionDef
        self.files = {}
        for dp, dn, fn in os.walk(SRC):
            dn.sort()
            for f in sorted(fn):
                if not f.endswith(".py"):
                    continue
                p = os.path.join(dp, f)
                rel = os.path.relpath(p, SRC)
                with open(p) as fh:
                    tree = ast.parse(fh.read())
                self.files[rel] = tree
                for n in tree.body:
                    if isinstance(n, ast.FunctionDef):
                        self.modfuncs[(rel, n.name)] = n
                for n in ast.walk(tree):
                    if isinstance(n, ast.ClassDef):
                        bases = []
                        for b in n.bases:
                            try:
                                bases.append(tyname(b))
                            except TranslateError:
                                bases.append(ast.unparse(b))
                        if n.name in self.classes:
                            if n.name in ("Parser",):       # local helper class inside Universe.__init__
                                continue
                            raise TranslateError(f"class name {n.name} defined twice ({rel}, {self.classes[n.name]['file']})")
                        self.classes[n.name] = dict(bases=bases, file=rel, node=n)

    def ancestors(self, c):
        out = []
        todo = list(self.classes.get(c, {}).get("bases", []))
        while todo:
            b = todo.pop(0)
            if b not in out:
                out.append(b)
                todo += self.classes.get(b, {}).get("bases", [])
        return out

    def mro(self, c):
        return [c] + self.ancestors(c)

    def find_method(self, cls, name, kind=None):
        """FunctionDef of method `name` (kind: None plain method / 'setter' / 'deleter') through the ancestors"""
        for c in self.mro(cls):
            ci = self.classes.get(c)
            if not ci:
                continue
            for fd in ci["node"].body:
                if isinstance(fd, ast.FunctionDef) and fd.name == name:
                    decs = [ast.unparse(d) for d in fd.decorator_list]
                    if kind is None and not any(d.endswith(".setter") or d.endswith(".deleter") or d == "property"
                                                or d.startswith("make_prop") for d in decs):
                        return c, fd
                    if kind and any(d == f"{name}.{kind}" for d in decs):
                        return c, fd
        return None, None

    def find_generated(self, cls, name, props):
        for c in self.mro(cls):
            for d in props:
                if d["cls"] == c and d["name"] == name:
                    return d
        return None


# ------------------------------------------------------------------------------------------------
# decorator uses
# ------------------------------------------------------------------------------------------------
def hidden_may_be_none(ix, cls, hidden):
    """does some method of the class (or of an ancestor) leave something else than a ValueNode in `self.<hidden>`
    (None, a list, nothing at all)?  Then `node = getattr(self, hidden); node.value = value` raises AttributeError."""
    for c in ix.mro(cls):
        ci = ix.classes.get(c)
        if not ci:
            continue
        for n in ast.walk(ci["node"]):
            # self.<hidden> = None / [] / {} (a data-block input keeps a list of nodes there), or del self.<hidden>
            if isinstance(n, ast.Assign) and (isinstance(n.value, (ast.List, ast.Dict)) or (
                    isinstance(n.value, ast.Constant) and n.value.value is None)):
                for t in n.targets:
                    if isinstance(t, ast.Attribute) and t.attr == hidden and _is_name(t.value, "self"):
                        return True
            if isinstance(n, ast.Delete):
                for t in n.targets:
                    if isinstance(t, ast.Attribute) and t.attr == hidden and _is_name(t.value, "self"):
                        return True
    return False


def collect_props(ix):
    props = []
    for cname, ci in sorted(ix.classes.items(), key=lambda kv: (kv[1]["file"], kv[1]["node"].lineno)):
        for fd in ci["node"].body:
            if not isinstance(fd, ast.FunctionDef):
                continue
            for dec in fd.decorator_list:
                if not (isinstance(dec, ast.Call) and isinstance(dec.func, ast.Name)
                        and dec.func.id in ("make_prop_val_node", "make_prop_pointer")):
                    continue
                params = ["hidden_param", "types", "base_type", "validator", "deletable"]
                vals = dict(zip(params, dec.args))
                for kw in dec.keywords:
                    if kw.arg not in params:
                        raise TranslateError(f"{cname}.{fd.name}: unknown decorator keyword {kw.arg}")
                    vals[kw.arg] = kw.value
                hp = vals.get("hidden_param")
                if not (isinstance(hp, ast.Constant) and isinstance(hp.value, str)):
                    raise TranslateError(f"{cname}.{fd.name}: hidden_param is not a string literal")
                t = vals.get("types")
                if t is None or (isinstance(t, ast.Constant) and t.value is None):
                    types = ("none", [])
                elif isinstance(t, ast.Tuple) and len(t.elts) == 0:
                    types = ("latch", [])
                else:
                    types = ("list", tylist(t))
                bt = vals.get("base_type")
                base = None if bt is None or (isinstance(bt, ast.Constant) and bt.value is None) else tyname(bt)
                v = vals.get("validator")
                if v is None or (isinstance(v, ast.Constant) and v.value is None):
                    validator = None
                elif isinstance(v, ast.Name):
                    validator = v.id
                else:
                    raise TranslateError(f"{cname}.{fd.name}: validator is not a plain name")
                dl = vals.get("deletable")
                if dl is None:
                    deletable = False
                elif isinstance(dl, ast.Constant) and isinstance(dl.value, bool):
                    deletable = dl.value
                else:
                    raise TranslateError(f"{cname}.{fd.name}: deletable is not a literal")
                props.append(dict(cls=cname, name=fd.name, hidden=hp.value, kind="val" if dec.func.id.endswith("val_node") else "ptr",
                                  types=types, base=base, validator=validator, deletable=deletable,
                                  file=ci["file"], line=fd.lineno, public=not fd.name.startswith("_"),
                                  syntax_layer=ci["file"].startswith(SYNTAX_LAYER)))
    return props


# ------------------------------------------------------------------------------------------------
# the two templates
# ------------------------------------------------------------------------------------------------
def _is_name(n, s):
    return isinstance(n, ast.Name) and n.id == s


def translate_template(ix, fname):
    """Recognise the setter closure of make_prop_val_node / make_prop_pointer statement by statement.
    -> (list of template statements, line table, deleter recognised?)"""
    fd = ix.modfuncs.get(("utilities.py", fname))
    if fd is None:
        raise TranslateError(f"utilities.{fname} not found")
    if [a.arg for a in fd.args.args] != ["hidden_param", "types", "base_type", "validator", "deletable"]:
        raise TranslateError(f"{fname}: unexpected parameter list")
    dec = [n for n in fd.body if isinstance(n, ast.FunctionDef) and n.name == "decorator"]
    if len(dec) != 1:
        raise TranslateError(f"{fname}: no inner decorator")
    setter = deleter = None
    for n in ast.walk(dec[0]):
        if isinstance(n, ast.FunctionDef) and n.name == "setter":
            setter = n
        if isinstance(n, ast.FunctionDef) and n.name == "deleter":
            deleter = n
    if setter is None or [a.arg for a in setter.args.args] != ["self", "value"]:
        raise TranslateError(f"{fname}: setter(self, value) not found")
    out = []
    tvar = "types"      # name of the variable holding the accepted types
    body = list(setter.body)
    i = 0
    while i < len(body):
        st = body[i]
        src = ast.unparse(st)
        if isinstance(st, ast.Nonlocal):
            if st.names != ["types"]:
                raise TranslateError(f"{fname}: nonlocal {st.names}")
            nxt = body[i + 1] if i + 1 < len(body) else None
            want = "if isinstance(types, tuple) and len(types) == 0:\n    types = type(self)"
            if nxt is None or ast.unparse(nxt) != want:
                raise TranslateError(f"{fname}: statement after `nonlocal types` is not the latch")
            out.append(dict(op="TLatch", line=nxt.lineno, end_line=nxt.end_lineno))
            i += 2
            continue
        # repaired form: a local default instead of rewriting the closure cell
        if (isinstance(st, ast.Assign) and len(st.targets) == 1 and isinstance(st.targets[0], ast.Name)
                and _is_name(st.value, "types")):
            loc = st.targets[0].id
            nxt = body[i + 1] if i + 1 < len(body) else None
            want = f"if isinstance({loc}, tuple) and len({loc}) == 0:\n    {loc} = type(self)"
            if nxt is None or ast.unparse(nxt) != want:
                raise TranslateError(f"{fname}: local copy of types without the default-to-type(self) statement")
            out.append(dict(op="TLocalDefault", line=st.lineno, end_line=nxt.end_lineno))
            tvar = loc
            i += 2
            continue
        if isinstance(st, ast.If) and ast.unparse(st.test) == f"not isinstance(value, {tvar})" and \
                len(st.body) == 1 and isinstance(st.body[0], ast.Raise) and not st.orelse:
            exc = exc_name(st.body[0])
            out.append(dict(op="TCheckType", exc=exc, line=st.lineno, end_line=st.test.end_lineno,
                            raise_line=st.body[0].lineno, raise_end=st.body[0].end_lineno))
            i += 1
            continue
        if isinstance(st, ast.If) and len(st.body) == 1 and ast.unparse(st.body[0]) == "value = base_type(value)" and not st.orelse:
            t = ast.unparse(st.test)
            if t == "base_type is not None and value is not None and (not isinstance(value, base_type))":
                none_guard = True
            elif t == "base_type is not None and (not isinstance(value, base_type))":
                none_guard = False
            else:
                raise TranslateError(f"{fname}: unrecognised conversion guard: {t}")
            out.append(dict(op="TConvert", none_guard=none_guard, line=st.lineno, end_line=st.test.end_lineno,
                            conv_line=st.body[0].lineno))
            i += 1
            continue
        if src == "if validator:\n    validator(self, value)":
            out.append(dict(op="TValidator", line=st.lineno, end_line=st.lineno, call_line=st.body[0].lineno))
            i += 1
            continue
        if src == "node = getattr(self, hidden_param)":
            nxt = body[i + 1] if i + 1 < len(body) else None
            if nxt is None or ast.unparse(nxt) != "node.value = value":
                raise TranslateError(f"{fname}: getattr(self, hidden_param) not followed by node.value = value")
            out.append(dict(op="TAssignNodeValue", line=st.lineno, end_line=nxt.end_lineno))
            i += 2
            continue
        if src == "setattr(self, hidden_param, value)":
            out.append(dict(op="TSetattr", line=st.lineno, end_line=st.end_lineno))
            i += 1
            continue
        raise TranslateError(f"{fname}: unrecognised template statement: {src}")
    if deleter is None:
        raise TranslateError(f"{fname}: no deleter")
    dsrc = [ast.unparse(s) for s in deleter.body]
    if dsrc == ["setattr(self, hidden_param, None)"]:
        # the hidden attribute itself becomes None
        dshape = [dict(op="mutate", line=deleter.body[0].lineno, end_line=deleter.body[0].end_lineno, suffix="")]
    elif dsrc == ["node = getattr(self, hidden_param)", "if node is not None:\n    node.value = None"]:
        # the node stays, its value becomes None
        iff = deleter.body[1]
        dshape = [dict(op="branch", line=iff.lineno, end_line=iff.test.end_lineno, cond="node is not None",
                       b1_line=iff.body[0].lineno, b1_end=iff.body[-1].end_lineno, b2_line=None, b2_end=None, b2=[],
                       b1=[dict(op="mutate", line=iff.body[0].lineno, end_line=iff.body[0].end_lineno, suffix=".value")])]
    else:
        raise TranslateError(f"{fname}: unrecognised deleter: {dsrc}")
    # the setter is only installed when types is not None; the deleter only when deletable
    guards = [ast.unparse(n.test) for n in ast.walk(dec[0]) if isinstance(n, ast.If)
              and any(isinstance(b, ast.FunctionDef) for b in n.body)]
    if sorted(guards) != ["deletable", "types is not None"]:
        raise TranslateError(f"{fname}: unexpected installation guards {guards}")
    return dict(name=fname, stmts=out, file="utilities.py", setter_line=setter.lineno,
                deleter_line=deleter.lineno, deleter_assign_line=deleter.body[0].lineno, deleter_stmts=dshape)


def exc_name(r):
    e = r.exc
    if e is None:
        return "reraise"
    if isinstance(e, ast.Call):
        e = e.func
    if isinstance(e, ast.Name):
        return e.id
    if isinstance(e, ast.Attribute):
        return e.attr
    raise TranslateError("unrecognised raise: " + ast.unparse(r))


# ------------------------------------------------------------------------------------------------
# statements -> IR
# ------------------------------------------------------------------------------------------------
class FnCtx:
    def __init__(self, T, cls, fname, fd, file, depth, stack):
        self.T = T
        self.cls = cls           # class of self (None for module-level validators: first parameter is `self`)
        self.fname = fname
        self.fd = fd
        self.file = file
        self.depth = depth
        self.stack = stack
        self.qual = stack[-1][1] if stack else fname       # name.setter / name.deleter / method name
        args = [a.arg for a in fd.args.args]
        self.selfname = args[0] if args else None
        self.params = args[1:]
        self.primary = self.params[0] if self.params else None
        self.locals = set()
        self.loopvars = set()
        # names as the facts below spell them: self, $0 $1 .. (parameters), $n0 $n1 .. (local names in the order
        # ast.walk meets their first binding): renaming a parameter or a local does not change a fact's key
        self.alpha = {}
        if args:
            self.alpha[args[0]] = "self"
        for i, a in enumerate(args[1:]):
            self.alpha[a] = "$%d" % i
        k = 0
        for n in ast.walk(fd):
            if isinstance(n, ast.Name) and isinstance(n.ctx, ast.Store) and n.id not in self.alpha:
                self.alpha[n.id] = "$n%d" % k
                k += 1
        self.fresh_deep = set()      # locals bound to an object graph created in this call (deepcopy / constructor)
        self.fresh_shallow = set()   # locals bound to a container created in this call ({} [] set() comprehension)
        self.guards = []             # sources of expressions known to be truthy (enclosing `if E:` / `if E and ..:`)
        self.validated = set()       # names whose value a collection constructor accepted (`Cells(list(x))` statement)
        self.len_eq = set()          # {src A, src B}: a check `if len(A) != len(B): raise` has been passed
        self.seen_subs = set()       # constant-key subscripts X['k'] evaluated or assigned on every path to here
        self.index_of = {}           # index variable of an enclosing `for i, x in enumerate(A)` -> src A
        self.last_effect = None      # source of the callee of the last effect emitted


def first_line(fd):
    """co_firstlineno of the compiled function: the line of its first decorator"""
    return min([fd.lineno] + [d.lineno for d in fd.decorator_list])


def node_span(n):
    return dict(file=None, line=n.lineno, end_line=getattr(n, "end_lineno", n.lineno))


class Translator:
    def __init__(self, ix, props, templates):
        self.ix = ix
        self.props = props
        self.templates = templates
        self.validators = {}
        self.notes = []          # (where, what) : every use of a fact / hint, for the evidence

    # ---- helpers -------------------------------------------------------------------------------
    def mk(self, ctx, op, node, **kw):
        d = dict(op=op, file=ctx.file, line=node.lineno, end_line=getattr(node, "end_lineno", node.lineno))
        d.update(kw)
        return d

    def root_name(self, e):
        while isinstance(e, (ast.Attribute, ast.Subscript)):
            e = e.value
        if isinstance(e, ast.Call):
            return self.root_name(e.func)
        return e.id if isinstance(e, ast.Name) else None

    def nsrc(self, ctx, node):
        """source of an expression with parameter and local names replaced by their placeholders"""
        class R(ast.NodeTransformer):
            def visit_Name(self_, n):
                return ast.copy_location(ast.Name(id=ctx.alpha.get(n.id, n.id), ctx=n.ctx), n)
        import copy
        return ast.unparse(R().visit(copy.deepcopy(node)))

    def mentions_param(self, ctx, e):
        """does the expression depend on an argument as the caller passed it?  (a parameter name that has been
        rebound to a container created in this call does not count)"""
        return any(isinstance(n, ast.Name) and n.id in ctx.params and n.id not in ctx.fresh_shallow
                   and n.id not in ctx.fresh_deep for n in ast.walk(e))

    # ---- expression effects ----------------------------------------------------------------------
    def effects(self, ctx, e, stmt_node, absorb=False):
        """IR statements for what evaluating expression e may do (raise / mutate), in evaluation order.
        absorb=True: the expression is the test of an `if ...: raise`, whose SCheck already may raise anything."""
        out = []
        if e is None:
            return out
        if isinstance(e, ast.Constant) or isinstance(e, ast.Name):
            return out
        if isinstance(e, ast.JoinedStr):
            return out      # message strings
        if isinstance(e, ast.Attribute):
            return self.effects(ctx, e.value, stmt_node, absorb)
        if isinstance(e, (ast.Tuple, ast.List, ast.Set)):
            for x in e.elts:
                out += self.effects(ctx, x, stmt_node, absorb)
            return out
        if isinstance(e, ast.Starred):
            return self.effects(ctx, e.value, stmt_node, absorb)
        if isinstance(e, ast.Dict):
            for x in list(e.keys) + list(e.values):
                out += self.effects(ctx, x, stmt_node, absorb)
            return out
        if isinstance(e, ast.BoolOp):
            for x in e.values:
                out += self.effects(ctx, x, stmt_node, absorb)
            return out
        if isinstance(e, ast.UnaryOp):
            return self.effects(ctx, e.operand, stmt_node, absorb)
        if isinstance(e, ast.BinOp):
            return self.effects(ctx, e.left, stmt_node, absorb) + self.effects(ctx, e.right, stmt_node, absorb)
        if isinstance(e, ast.IfExp):
            return (self.effects(ctx, e.test, stmt_node, absorb) + self.effects(ctx, e.body, stmt_node, absorb)
                    + self.effects(ctx, e.orelse, stmt_node, absorb))
        if isinstance(e, ast.Compare):
            for x in [e.left] + list(e.comparators):
                out += self.effects(ctx, x, stmt_node, absorb)
            ordering = any(isinstance(o, (ast.Lt, ast.LtE, ast.Gt, ast.GtE)) for o in e.ops)
            if ordering and self.mentions_param(ctx, e) and not absorb:
                out.append(self.mk(ctx, "call", stmt_node, f="compare:" + ast.unparse(e), r=True, m=False, a=False))
            return out
        if isinstance(e, ast.Subscript):
            out += self.effects(ctx, e.value, stmt_node, absorb)
            out += self.effects(ctx, e.slice, stmt_node, absorb)
            src = self.nsrc(ctx, e)
            key = (ctx.cls, ctx.fname, src)
            vsrc = ast.unparse(e.value)
            const_end = (isinstance(e.slice, ast.Constant) and e.slice.value == 0) or (
                isinstance(e.slice, ast.UnaryOp) and isinstance(e.slice.op, ast.USub)
                and isinstance(e.slice.operand, ast.Constant) and e.slice.operand.value == 1)
            idx = e.slice.id if isinstance(e.slice, ast.Name) and e.slice.id in ctx.index_of else None
            if idx is not None:
                src = self.nsrc(ctx, e.value) + "[$i]"
                key = (ctx.cls, ctx.fname, src)
            if DEBUG_KEYS:
                print("KEY subscript", ctx.cls, ctx.qual, "|", ast.unparse(e), "|", src)
            raw = ast.unparse(e)
            const_key = isinstance(e.slice, ast.Constant) and isinstance(e.slice.value, str)
            if const_key and raw in ctx.seen_subs:
                self.notes.append((f"{ctx.cls}.{ctx.fname}", f"subscript {raw} cannot raise: evaluated or assigned before, "
                                                             f"nothing removed since"))
                return out
            if const_key:
                ctx.seen_subs.add(raw)
            if const_end and vsrc in ctx.guards:
                self.notes.append((f"{ctx.cls}.{ctx.fname}", f"subscript {src} cannot raise: inside `if {vsrc}` (non-empty)"))
            elif idx is not None and (vsrc == ctx.index_of[idx] or frozenset((vsrc, ctx.index_of[idx])) in ctx.len_eq):
                self.notes.append((f"{ctx.cls}.{ctx.fname}", f"subscript {vsrc}[{idx}] cannot raise: {idx} enumerates "
                                                             f"{ctx.index_of[idx]}, which a check above found as long as {vsrc}"))
            elif key in SUBSCRIPT_FACTS or (ctx.cls, ctx.qual, src) in SUBSCRIPT_FACTS:
                why = SUBSCRIPT_FACTS.get(key) or SUBSCRIPT_FACTS[(ctx.cls, ctx.qual, src)]
                self.notes.append((f"{ctx.cls}.{ctx.qual}", f"subscript {src} cannot raise: {why}"))
            elif not absorb:
                out.append(self.mk(ctx, "call", stmt_node, f="subscript:" + ast.unparse(e), r=True, m=False, a=False))
            return out
        if isinstance(e, (ast.ListComp, ast.GeneratorExp, ast.SetComp, ast.DictComp)):
            inner = []
            for g in e.generators:
                inner += self.effects(ctx, g.iter, stmt_node, absorb)
                if self.mentions_param(ctx, g.iter) and not absorb:
                    inner.append(self.mk(ctx, "call", stmt_node, f="iter:" + ast.unparse(g.iter)[:40], r=True, m=False, a=False))
                for n in ast.walk(g.target):
                    if isinstance(n, ast.Name):
                        ctx.locals.add(n.id)
                for c in g.ifs:
                    inner += self.effects(ctx, c, stmt_node, absorb)
            if isinstance(e, ast.DictComp):
                inner += self.effects(ctx, e.key, stmt_node, absorb) + self.effects(ctx, e.value, stmt_node, absorb)
            else:
                inner += self.effects(ctx, e.elt, stmt_node, absorb)
            return inner
        if isinstance(e, ast.Call):
            return self.call_effects(ctx, e, stmt_node, absorb)
        raise TranslateError(f"{ctx.cls}.{ctx.fname}: unrecognised expression {type(e).__name__}: {ast.unparse(e)}")

    def call_effects(self, ctx, e, stmt_node, absorb):
        out = []
        for a in e.args:
            out += self.effects(ctx, a, stmt_node, absorb)
        for k in e.keywords:
            out += self.effects(ctx, k.value, stmt_node, absorb)
        f = e.func
        src = ast.unparse(f)
        if isinstance(f, ast.Name):
            n = f.id
            if n in PURE_BUILTINS:
                return out
            if n == "len":
                if self.mentions_param(ctx, e) and not absorb:
                    out.append(self.mk(ctx, "call", stmt_node, f="len:" + ast.unparse(e), r=True, m=False, a=False))
                return out
            if n in ITER_BUILTINS:
                if len(e.args) == 1 and _is_name(e.args[0], ctx.primary):
                    out.append(self.mk(ctx, "iter", stmt_node))
                elif e.args and self.mentions_param(ctx, e) and not absorb:
                    out.append(self.mk(ctx, "call", stmt_node, f=n + ":" + ast.unparse(e)[:40], r=True, m=False, a=False))
                return out
            if n in CONVERT_BUILTINS:
                if not absorb:
                    out.append(self.mk(ctx, "call", stmt_node, f=n + ":" + ast.unparse(e), r=True, m=False, a=False))
                return out
            if n in CTOR_FACTS or n in self.ix.classes:
                return out + self.ctor(ctx, n, e, stmt_node, absorb)
            if n == "abs" or n == "max" or n == "min" or n == "next" or n == "any" or n == "all":
                if not absorb:
                    out.append(self.mk(ctx, "call", stmt_node, f=n, r=True, m=False, a=False))
                return out
            # a module-level helper of montepy? unknown: conservative
            out.append(self.mk(ctx, "call", stmt_node, f="unknown:" + src, r=True, m=True, a=False))
            return out
        if isinstance(f, ast.Attribute):
            out += self.effects(ctx, f.value, stmt_node, absorb)
            m = f.attr
            recv = ast.unparse(f.value)
            root = self.root_name(f.value)
            # constructor through a module: mcnp_input.Title(...), thermal_scattering.ThermalScatteringLaw(...)
            if m in CTOR_FACTS or (m in self.ix.classes and m[0].isupper()):
                return out + self.ctor(ctx, m, e, stmt_node, absorb)
            if m == "_generate_default_node" and len(e.args) >= 2 and _is_name(e.args[0], "str") and _is_name(e.args[1], ctx.primary):
                # MCNP_Object._generate_default_node(str, arg): ValueNode(str(arg), str) unless arg is None — what can
                # fail is str(arg), and not when arg is a str: the conversion statement of the IR says exactly that
                self.notes.append((f"{ctx.cls}.{ctx.qual}", "_generate_default_node(str, <argument>) is the guarded conversion "
                                                             "str(<argument>); it builds a fresh node and touches no existing object"))
                out.append(self.mk(ctx, "convert", stmt_node, t="str", guarded=True, none_guard=True))
                return out
            if m in ("pop", "popitem", "clear", "remove", "discard"):
                ctx.seen_subs.clear()
            nrecv = self.nsrc(ctx, f.value)
            if DEBUG_KEYS:
                print("KEY call", ctx.cls, ctx.qual, "|", m, "|", recv, "|", nrecv)
            fact = CALL_FACTS.get((m, nrecv)) or CALL_FACTS.get((m, None))
            fact = self.conditional_fact(ctx, e, m, recv, fact)
            # pure look-ups on plain containers held by self
            if fact is None and m in PURE_CONTAINER_METHODS and isinstance(f.value, ast.Attribute) \
                    and _is_name(f.value.value, ctx.selfname) and (ctx.cls, f.value.attr) in PLAIN_CONTAINERS:
                return out
            # methods on local containers / strings
            if root is not None and root != ctx.selfname and root not in ctx.params and root in ctx.locals \
                    and fact is None:
                fresh = root in ctx.fresh_deep or (root in ctx.fresh_shallow and isinstance(f.value, ast.Name))
                if m in MUTATING_METHODS and not fresh:
                    # the local is (or may be) an alias of an object of the problem
                    out.append(self.mk(ctx, "call", stmt_node, f="alias:" + src, r=True, m=True, a=False))
                    return out
                if m in LOCAL_CONTAINER_METHODS or m in PURE_CONTAINER_METHODS:
                    return out
                if m in LOCAL_RAISING_METHODS:
                    if not absorb:
                        out.append(self.mk(ctx, "call", stmt_node, f="local:" + src, r=True, m=False, a=False))
                    return out
            # a method of a MontePy class that we can inline
            target_cls = None
            if recv == ctx.selfname:
                target_cls = ctx.cls
            elif (ctx.cls, nrecv) in RECEIVER_HINTS:
                target_cls = RECEIVER_HINTS[(ctx.cls, nrecv)]
            if target_cls and fact is None:
                c, fd = self.ix.find_method(target_cls, m)
                if fd is not None and ctx.depth < MAX_INLINE and (c, m) not in ctx.stack:
                    src_arg = self.argsrc(ctx, e.args[0]) if e.args else ("unknown", None)
                    body = self.function(c, m, fd, self.ix.classes[c]["file"], ctx.depth + 1, ctx.stack + [(c, m)])
                    if (ctx.cls, nrecv) in RECEIVER_HINTS:
                        self.notes.append((f"{ctx.cls}.{ctx.fname}", f"receiver {recv} is a {target_cls}"))
                    out.append(self.mk(ctx, "inline", stmt_node, f=f"{c}.{m}", src=src_arg, body=body,
                                       callee=dict(file=self.ix.classes[c]["file"], name=m, line=fd.lineno,
                                                   first_line=first_line(fd))))
                    return out
            if fact is not None:
                r, mu, at, why = fact
                self.notes.append((f"{ctx.cls}.{ctx.fname}", f"call {src}: may_raise={r} may_mutate={mu} atomic={at}: {why}"))
                if (r and not absorb) or mu:
                    out.append(self.mk(ctx, "call", stmt_node, f=src, r=r, m=mu, a=at))
                elif r and absorb:
                    pass
                return out
            out.append(self.mk(ctx, "call", stmt_node, f="unknown:" + src, r=True, m=True, a=False))
            return out
        out.append(self.mk(ctx, "call", stmt_node, f="unknown:" + src, r=True, m=True, a=False))
        return out

    def conditional_fact(self, ctx, e, m, recv, fact):
        """facts that depend on the shape of the code around the call / of the callee"""
        if m == "_add_new_children_to_cell":
            c, fd = self.ix.find_method("HalfSpace", m)
            if fd is not None and two_phase(fd):
                return (True, True, True,
                        "HalfSpace._add_new_children_to_cell: every raise statement stands above the first append / extend "
                        "(two_phase): it raises before it changes anything; the extends that follow add objects whose "
                        "numbers were just checked against the collection and against each other")
            return fact
        # a static method of the own class called on objects this call created (deepcopy / constructor): whatever
        # it changes is not part of the problem yet
        if fact is None and recv in (ctx.selfname, ctx.cls) and e.args and not e.keywords and all(
                isinstance(a, ast.Name) and a.id in ctx.fresh_deep for a in e.args):
            c, fd = self.ix.find_method(ctx.cls, m)
            if fd is not None and any(ast.unparse(d) == "staticmethod" for d in fd.decorator_list):
                r = not cannot_raise_shape(fd)
                return (r, False, False,
                        f"{c}.{m} is a static method and every argument is an object graph created by this call "
                        f"(deepcopy / constructor): no object of the problem is touched"
                        + ("" if r else "; its body only walks the graph (cannot_raise_shape)"))
        if m == "_generate_default_node" and (ctx.cls, ctx.qual) == ("ThermalScatteringLaw", "thermal_scattering_laws.setter"):
            return (False, False, False,
                    "MCNP_Object._generate_default_node(str, law) with `law` one of the elements the loop above checked to be "
                    "a str: str(law) cannot fail, a fresh ValueNode is built, no existing object is touched")
        if m == "extend" and recv == "self.cells" and len(e.args) == 1 and isinstance(e.args[0], ast.Name) \
                and e.args[0].id in ctx.validated and ctx.last_effect == "self.cells.clear":
            return (False, True, False,
                    "NumberedObjectCollection.extend into the collection emptied by the statement above, of candidates that "
                    "`Cells(list(cells))` accepted just before: the same type and collision checks, and no member left")
        return fact

    def ctor(self, ctx, n, e, stmt_node, absorb):
        if n not in CTOR_FACTS:
            return [self.mk(ctx, "call", stmt_node, f="unknown-ctor:" + n, r=True, m=True, a=False)]
        r, mu, why = CTOR_FACTS[n]
        self.notes.append((f"{ctx.cls}.{ctx.fname}", f"constructor {n}: may_raise={r} may_mutate={mu}: {why}"))
        if (r and not absorb) or mu:
            return [self.mk(ctx, "call", stmt_node, f="new:" + n, r=r, m=mu, a=False)]
        return []

    def argsrc(self, ctx, a):
        if _is_name(a, ctx.primary):
            return ("same", None)
        if _is_name(a, ctx.selfname):
            return ("self", ctx.cls)
        if isinstance(a, ast.Constant):
            v = a.value
            t = "NoneType" if v is None else type(v).__name__
            return ("const", t)
        if isinstance(a, ast.Call) and isinstance(a.func, ast.Name) and a.func.id in CONVERT_BUILTINS:
            return ("conv", a.func.id)
        return ("unknown", None)

    # ---- statements ------------------------------------------------------------------------------
    def is_state_target(self, ctx, t):
        """does assigning to t change an object reachable from the problem (as opposed to a local name)?"""
        if isinstance(t, ast.Name):
            return False
        root = self.root_name(t)
        if root is None:
            raise TranslateError(f"{ctx.cls}.{ctx.fname}: unrecognised assignment target {ast.unparse(t)}")
        if root == ctx.selfname or root in ctx.params or root in ctx.loopvars:
            return True
        # an attribute of an object held in a local variable: the object may well be shared
        return True

    def assign(self, ctx, st, target, value):
        out = []
        if isinstance(target, ast.Tuple):
            raise TranslateError(f"{ctx.cls}.{ctx.fname}: tuple assignment {ast.unparse(st)}")
        if isinstance(target, ast.Name):
            # local (re)binding; conversion of the primary argument is tracked
            if (target.id == ctx.primary and isinstance(value, ast.Call) and isinstance(value.func, (ast.Name, ast.Attribute))
                    and len(value.args) == 1 and not value.keywords):
                fn = value.func.id if isinstance(value.func, ast.Name) else value.func.attr
                a0 = value.args[0]
                wraps = _is_name(a0, ctx.primary) or (isinstance(a0, ast.List) and len(a0.elts) == 1 and _is_name(a0.elts[0], ctx.primary))
                if wraps and (fn in CONVERT_BUILTINS or fn in CTOR_FACTS or fn in self.ix.classes):
                    if fn in CTOR_FACTS:
                        self.notes.append((f"{ctx.cls}.{ctx.fname}", f"conversion {fn}(...): {CTOR_FACTS[fn][2]}"))
                    out.append(self.mk(ctx, "convert", st, t=fn, guarded=False))
                    return out
            out += self.effects(ctx, value, st)
            if target.id == ctx.primary:
                # the primary argument is rebound to something we do not track: forget what is known
                out.append(self.mk(ctx, "forget", st))
            ctx.locals.add(target.id)
            ctx.seen_subs = {x for x in ctx.seen_subs if not (x.startswith(target.id + "[") or x.startswith(target.id + "."))}
            ctx.fresh_deep.discard(target.id)
            ctx.fresh_shallow.discard(target.id)
            kind = self.freshness(ctx, value)
            if kind == "deep":
                ctx.fresh_deep.add(target.id)
            elif kind == "shallow":
                ctx.fresh_shallow.add(target.id)
            return out
        # attribute / subscript target
        out += self.effects(ctx, value, st)
        # evaluation of the target's own sub-expressions (subscripts may raise)
        if isinstance(target, ast.Attribute):
            out += self.effects(ctx, target.value, st)
        elif isinstance(target, ast.Subscript):
            out += self.effects(ctx, target.value, st) + self.effects(ctx, target.slice, st)
        # assignment to a property with a known setter -> inline it
        if isinstance(target, ast.Attribute):
            recv = ast.unparse(target.value)
            tcls = ctx.cls if recv == ctx.selfname else RECEIVER_HINTS.get((ctx.cls, self.nsrc(ctx, target.value)))
            if DEBUG_KEYS and recv != ctx.selfname:
                print("KEY recv", ctx.cls, ctx.qual, "|", recv, "|", self.nsrc(ctx, target.value))
            if tcls:
                inl = self.inline_setter(ctx, st, tcls, target.attr, self.argsrc(ctx, value), recv)
                if inl is not None:
                    return out + [inl]
        # rebinding X forgets what is known about X[...]
        tsrc = ast.unparse(target)
        ctx.seen_subs = {x for x in ctx.seen_subs if not (x.startswith(tsrc + "[") or x.startswith(tsrc + "."))}
        if isinstance(target, ast.Subscript) and isinstance(target.slice, ast.Constant) and isinstance(target.slice.value, str):
            ctx.seen_subs.add(tsrc)
        if self.fresh_target(ctx, target):
            self.notes.append((f"{ctx.cls}.{ctx.fname}", f"assignment to {ast.unparse(target)}: inside an object created by this call"))
            return out
        out.append(self.mk(ctx, "mutate", st, target=ast.unparse(target)))
        return out

    def freshness(self, ctx, value):
        """is the value of this expression created by the call itself?  'deep': a whole new object graph
        (deepcopy, constructor); 'shallow': a new container whose items may be old objects; None: unknown"""
        if isinstance(value, (ast.Dict, ast.List, ast.Set, ast.ListComp, ast.SetComp, ast.DictComp)):
            return "shallow"
        if isinstance(value, ast.Name) and value.id in ctx.fresh_shallow:
            return "shallow"
        if isinstance(value, ast.Name) and value.id in ctx.fresh_deep:
            return "deep"
        if isinstance(value, ast.Call):
            fn = value.func
            name = fn.id if isinstance(fn, ast.Name) else (fn.attr if isinstance(fn, ast.Attribute) else None)
            if name in ("set", "list", "dict", "tuple", "frozenset", "sorted"):
                return "shallow"
            if name == "deepcopy":
                return "deep"
            if name in CTOR_FACTS and not CTOR_FACTS[name][1]:
                return "deep"
        return None

    def fresh_target(self, ctx, target):
        """assignment target inside an object created by this call: not a change of the problem"""
        root = self.root_name(target)
        if root in ctx.fresh_deep and root not in ctx.params and root != ctx.selfname:
            return True
        if root in ctx.fresh_shallow and isinstance(target, ast.Subscript) and isinstance(target.value, ast.Name):
            return True
        return False

    def inline_setter(self, ctx, st, tcls, attr, src, recv, kind="setter"):
        c, fd = self.ix.find_method(tcls, attr, kind)
        if fd is not None:
            if ctx.depth >= MAX_INLINE or (c, attr + "." + kind) in ctx.stack:
                return self.mk(ctx, "call", st, f=f"{c}.{attr}.{kind}", r=True, m=True, a=False)
            body = self.function(c, attr, fd, self.ix.classes[c]["file"], ctx.depth + 1, ctx.stack + [(c, attr + "." + kind)])
            if recv != ctx.selfname:
                self.notes.append((f"{ctx.cls}.{ctx.fname}", f"receiver {recv} is a {tcls}"))
            return self.mk(ctx, "inline", st, f=f"{c}.{attr}" + ("" if kind == "setter" else ".del"), src=src, body=body,
                           callee=dict(file=self.ix.classes[c]["file"], name=attr, line=fd.lineno, first_line=first_line(fd)))
        d = self.ix.find_generated(tcls, attr, self.props)
        if d is not None:
            if kind == "deleter":
                if not d["deletable"]:
                    raise TranslateError(f"{ctx.cls}.{ctx.fname}: del of non-deletable generated property {attr}")
                body = self.generated_deleter(d)
                tm = self.templates["make_prop_val_node" if d["kind"] == "val" else "make_prop_pointer"]
                return self.mk(ctx, "inline", st, f=f"{d['cls']}.{attr}.del", src=("unknown", None), body=body,
                               callee=dict(file="utilities.py", name="deleter", line=tm["deleter_line"],
                                           first_line=tm["deleter_line"]))
            if d["types"][0] == "none":
                raise TranslateError(f"{ctx.cls}.{ctx.fname}: assignment to read-only generated property {attr}")
            if recv != ctx.selfname:
                self.notes.append((f"{ctx.cls}.{ctx.fname}", f"receiver {recv} is a {tcls}"))
            body = self.generated_setter(d, tcls)
            tm = self.templates["make_prop_val_node" if d["kind"] == "val" else "make_prop_pointer"]
            return self.mk(ctx, "inline", st, f=f"{d['cls']}.{attr}", src=src, body=body,
                           callee=dict(file="utilities.py", name="setter", line=tm["setter_line"], first_line=tm["setter_line"]))
        return None

    def generated_setter(self, d, self_cls=None):
        """IR of one instantiation of a template (the Coq side has the same function, Setter.instantiate;
        Properties/C14.v checks that both agree on the whole table)."""
        tm = self.templates["make_prop_val_node" if d["kind"] == "val" else "make_prop_pointer"]
        out = []
        for t in tm["stmts"]:
            base = dict(file="utilities.py", line=t["line"], end_line=t["end_line"])
            if t["op"] in ("TLatch", "TLocalDefault"):
                continue
            if t["op"] == "TCheckType":
                ts = d["types"][1] if d["types"][0] == "list" else ["@self"]
                out.append(dict(base, op="checkinst", ts=ts, exc=t["exc"], raise_line=t["raise_line"],
                                raise_end=t["raise_end"], latch=d["types"][0] == "latch"))
            elif t["op"] == "TConvert":
                if d["base"] is not None:
                    out.append(dict(base, op="convert", t=d["base"], guarded=True, none_guard=t["none_guard"],
                                    end_line=t["conv_line"]))
            elif t["op"] == "TValidator":
                if d["validator"] is not None:
                    vb = self.validator(d["validator"], d["file"])
                    out.append(dict(base, op="inline", f="validator:" + vb["key"], src=("same", None), body=vb["body"],
                                    end_line=t["call_line"],
                                    callee=dict(file=vb["file"], name=d["validator"], line=vb["line"], first_line=vb["first_line"])))
            elif t["op"] == "TAssignNodeValue" and d.get("node_opt"):
                # node = getattr(self, hidden); node.value = value — with the hidden attribute None: AttributeError,
                # raised by the assignment itself, before anything is written
                out.append(dict(base, op="call", f="setattr:self." + d["hidden"] + ".value", r=True, m=True, a=True))
            elif t["op"] in ("TAssignNodeValue", "TSetattr"):
                out.append(dict(base, op="mutate", target="self." + d["hidden"] + (".value" if t["op"] == "TAssignNodeValue" else "")))
        return out

    def generated_deleter(self, d):
        tm = self.templates["make_prop_val_node" if d["kind"] == "val" else "make_prop_pointer"]
        def inst(stmts):
            out = []
            for t in stmts:
                x = dict(t, file="utilities.py")
                if t["op"] == "mutate":
                    x["target"] = "self." + d["hidden"] + x.pop("suffix")
                else:
                    x["b1"], x["b2"] = inst(t["b1"]), inst(t["b2"])
                out.append(x)
            return out
        return inst(json.loads(json.dumps(tm["deleter_stmts"])))

    def validator(self, name, file):
        key = (file, name)
        if key in self.validators:
            return self.validators[key]
        fd = self.ix.modfuncs.get(key)
        if fd is None:
            # a function of the class body used by name in the decorators below it
            for d in self.props:
                if d["validator"] == name and d["file"] == file:
                    for n in self.ix.classes[d["cls"]]["node"].body:
                        if isinstance(n, ast.FunctionDef) and n.name == name:
                            fd = n
                    break
        if fd is None:
            raise TranslateError(f"validator {name} not found at module level or in the class body in {file}")
        if len(fd.args.args) != 2:
            raise TranslateError(f"validator {name}: expected (self, value)")
        # class of `self` inside a module-level validator: the class (in the same file) whose decorators name it
        users = sorted({d["cls"] for d in self.props if d["validator"] == name and d["file"] == file})
        cls = users[0] if users else None
        body = self.function(cls, name, fd, file, 1, [(cls, name)])
        qual = os.path.basename(file)[:-3] + "." + name
        self.validators[key] = dict(name=name, key=qual, file=file, line=fd.lineno, first_line=first_line(fd), body=body, users=users)
        return self.validators[key]

    def function(self, cls, fname, fd, file, depth, stack):
        ctx = FnCtx(self, cls, fname, fd, file, depth, stack)
        if fd.args.vararg or fd.args.kwarg or fd.args.kwonlyargs:
            raise TranslateError(f"{cls}.{fname}: *args/**kwargs")
        return self.block(ctx, fd.body)

    def block(self, ctx, stmts):
        out = []
        for st in stmts:
            out += self.stmt(ctx, st)
        return out

    def stmt(self, ctx, st):
        if isinstance(st, ast.Expr) and isinstance(st.value, ast.Constant) and isinstance(st.value.value, str):
            return []       # docstring
        if isinstance(st, ast.Pass):
            return []
        if isinstance(st, ast.Return):
            out = self.effects(ctx, st.value, st)
            return out + [self.mk(ctx, "return", st)]
        if isinstance(st, ast.Raise):
            return [self.mk(ctx, "raise", st, exc=exc_name(st))]
        if isinstance(st, ast.If):
            # if <test>: raise X   [elif/else ...]
            if len(st.body) == 1 and isinstance(st.body[0], ast.Raise):
                r = st.body[0]
                pre = self.effects(ctx, st.test, st, absorb=True)   # only mutating / inlined effects survive
                t = st.test
                chk = None
                if (isinstance(t, ast.UnaryOp) and isinstance(t.op, ast.Not) and isinstance(t.operand, ast.Call)
                        and _is_name(t.operand.func, "isinstance") and len(t.operand.args) == 2
                        and _is_name(t.operand.args[0], ctx.primary)):
                    chk = self.mk(ctx, "checkinst", st, ts=tylist(t.operand.args[1]), exc=exc_name(r),
                                  raise_line=r.lineno, raise_end=r.end_lineno, latch=False)
                else:
                    chk = self.mk(ctx, "check", st, cond=ast.unparse(t), exc=exc_name(r), raise_line=r.lineno,
                                  raise_end=r.end_lineno)
                chk["end_line"] = st.test.end_lineno
                if (isinstance(t, ast.Compare) and len(t.ops) == 1 and isinstance(t.ops[0], ast.NotEq)):
                    sides = [t.left, t.comparators[0]]
                    if all(isinstance(x, ast.Call) and _is_name(x.func, "len") and len(x.args) == 1 for x in sides):
                        ctx.len_eq.add(frozenset(ast.unparse(x.args[0]) for x in sides))
                return pre + [chk] + self.block(ctx, st.orelse)
            pre = self.effects(ctx, st.test, st)
            conj = st.test.values if isinstance(st.test, ast.BoolOp) and isinstance(st.test.op, ast.And) else [st.test]
            ng = [ast.unparse(c) for c in conj if isinstance(c, (ast.Attribute, ast.Name, ast.Subscript))]
            ctx.guards += ng
            f0 = (set(ctx.fresh_deep), set(ctx.fresh_shallow), set(ctx.validated), set(ctx.seen_subs))
            b1 = self.block(ctx, st.body)
            del ctx.guards[len(ctx.guards) - len(ng):]
            f1 = (set(ctx.fresh_deep), set(ctx.fresh_shallow), set(ctx.validated), set(ctx.seen_subs))
            ctx.fresh_deep, ctx.fresh_shallow, ctx.validated, ctx.seen_subs = set(f0[0]), set(f0[1]), set(f0[2]), set(f0[3])
            b2 = self.block(ctx, st.orelse)
            # what holds after the statement holds on both paths
            ctx.fresh_deep &= f1[0]
            ctx.fresh_shallow &= f1[1]
            ctx.validated &= f1[2]
            ctx.seen_subs &= f1[3]
            br = self.mk(ctx, "branch", st, cond=ast.unparse(st.test), b1=b1, b2=b2)
            br["end_line"] = st.test.end_lineno
            br["b1_line"] = st.body[0].lineno
            br["b1_end"] = st.body[-1].end_lineno
            br["b2_line"] = st.orelse[0].lineno if st.orelse else None
            br["b2_end"] = st.orelse[-1].end_lineno if st.orelse else None
            for p in pre:
                p["end_line"] = st.test.end_lineno
            return pre + [br]
        if isinstance(st, ast.For):
            if st.orelse:
                raise TranslateError(f"{ctx.cls}.{ctx.fname}: for/else")
            pre = []
            it0 = st.iter
            if (isinstance(it0, ast.Call) and isinstance(it0.func, ast.Name) and it0.func.id in ("enumerate", "zip", "iter")
                    and it0.args and _is_name(it0.args[0], ctx.primary)
                    and all(not self.mentions_param(ctx, a) for a in it0.args[1:])):
                it0 = it0.args[0]
            if _is_name(it0, ctx.primary):
                pre.append(self.mk(ctx, "iter", st))
            else:
                pre += self.effects(ctx, st.iter, st)
                if self.mentions_param(ctx, st.iter) and not any(p["op"] == "iter" for p in pre):
                    pre.append(self.mk(ctx, "call", st, f="iter:" + ast.unparse(st.iter), r=True, m=False, a=False))
            for n in ast.walk(st.target):
                if isinstance(n, ast.Name):
                    ctx.loopvars.add(n.id)
                    ctx.locals.add(n.id)
            # a name the body rebinds is, at the start of an iteration, whatever the previous one left
            for n in ast.walk(st):
                if isinstance(n, (ast.Assign, ast.AugAssign)):
                    for t in (n.targets if isinstance(n, ast.Assign) else [n.target]):
                        if isinstance(t, ast.Name):
                            ctx.fresh_deep.discard(t.id)
                            ctx.fresh_shallow.discard(t.id)
                            ctx.validated.discard(t.id)
            f0 = (set(ctx.fresh_deep), set(ctx.fresh_shallow), set(ctx.validated), set(ctx.seen_subs))
            idx_name = None
            if (isinstance(st.iter, ast.Call) and _is_name(st.iter.func, "enumerate") and len(st.iter.args) == 1
                    and isinstance(st.target, ast.Tuple) and len(st.target.elts) == 2 and isinstance(st.target.elts[0], ast.Name)):
                idx_name = st.target.elts[0].id
                ctx.index_of[idx_name] = ast.unparse(st.iter.args[0])
            body = self.block(ctx, st.body)
            if idx_name is not None:
                ctx.index_of.pop(idx_name, None)
            ctx.fresh_deep &= f0[0]
            ctx.fresh_shallow &= f0[1]
            ctx.validated &= f0[2]
            ctx.seen_subs &= f0[3]
            lp = self.mk(ctx, "loop", st, body=body, it=ast.unparse(st.iter))
            lp["end_line"] = st.iter.end_lineno
            lp["body_line"] = st.body[0].lineno
            lp["body_end"] = st.body[-1].end_lineno
            for p in pre:
                p["end_line"] = st.iter.end_lineno
            return pre + [lp]
        if isinstance(st, ast.Assign):
            if len(st.targets) != 1:
                raise TranslateError(f"{ctx.cls}.{ctx.fname}: chained assignment")
            return self.assign(ctx, st, st.targets[0], st.value)
        if isinstance(st, ast.AugAssign):
            return self.assign(ctx, st, st.target, st.value)
        if isinstance(st, ast.Delete):
            ctx.seen_subs.clear()
            out = []
            for t in st.targets:
                if isinstance(t, ast.Attribute):
                    recv = ast.unparse(t.value)
                    tcls = ctx.cls if recv == ctx.selfname else RECEIVER_HINTS.get((ctx.cls, self.nsrc(ctx, t.value)))
                    if tcls:
                        inl = self.inline_setter(ctx, st, tcls, t.attr, ("unknown", None), recv, kind="deleter")
                        if inl is not None:
                            out.append(inl)
                            continue
                    out.append(self.mk(ctx, "mutate", st, target="del " + ast.unparse(t)))
                elif isinstance(t, ast.Subscript):
                    out += self.effects(ctx, t.value, st)
                    # del d[k]: KeyError when absent, nothing changed then
                    out.append(self.mk(ctx, "call", st, f="del " + ast.unparse(t), r=True, m=True, a=True))
                else:
                    raise TranslateError(f"{ctx.cls}.{ctx.fname}: del {ast.unparse(t)}")
            return out
        if isinstance(st, ast.Expr):
            if isinstance(st.value, ast.Call):
                out = self.effects(ctx, st.value, st)
                v = st.value
                fn = v.func.id if isinstance(v.func, ast.Name) else (v.func.attr if isinstance(v.func, ast.Attribute) else None)
                if fn in ("Cells", "Materials", "Surfaces", "Transforms", "Universes") and len(v.args) == 1:
                    a0 = v.args[0]
                    if isinstance(a0, ast.Call) and _is_name(a0.func, "list") and len(a0.args) == 1 and isinstance(a0.args[0], ast.Name):
                        ctx.validated.add(a0.args[0].id)
                ctx.last_effect = ast.unparse(v.func)
                return out
            raise TranslateError(f"{ctx.cls}.{ctx.fname}: expression statement {ast.unparse(st)}")
        if isinstance(st, (ast.Nonlocal, ast.Global)):
            raise TranslateError(f"{ctx.cls}.{ctx.fname}: {ast.unparse(st)} (closure / global state in a setter)")
        raise TranslateError(f"{ctx.cls}.{ctx.fname}: unsupported statement {type(st).__name__}: {ast.unparse(st)[:80]}")


# ------------------------------------------------------------------------------------------------
# numbering and emission
# ------------------------------------------------------------------------------------------------
def number(ir, counter=None):
    counter = counter if counter is not None else [0]
    for s in ir:
        s["id"] = counter[0]
        counter[0] += 1
        for k in ("body", "b1", "b2"):
            if k in s:
                number(s[k], counter)
    return ir


def cs(s):
    return '"' + s.replace('"', '""') + '"'


def cbool(b):
    return "true" if b else "false"


def clist(items):
    return "[" + "; ".join(items) + "]"


def coq_stmt(s, ind):
    pad = " " * ind
    op = s["op"]
    i = s["id"]
    if op == "checkinst":
        return f"{pad}SCheckInst {i} {clist([cs(t) for t in s['ts']])} {cs(s['exc'])}"
    if op == "check":
        return f"{pad}SCheck {i} {cs(s['exc'])}"
    if op == "raise":
        return f"{pad}SRaise {i} {cs(s['exc'])}"
    if op == "convert":
        return f"{pad}SConvert {i} {cs(s['t'])} {cbool(s['guarded'])} {cbool(s.get('none_guard', False))}"
    if op == "iter":
        return f"{pad}SIter {i}"
    if op == "forget":
        return f"{pad}SForget {i}"
    if op == "mutate":
        return f"{pad}SMutate {i} {cs(s['target'])}"
    if op == "call":
        return f"{pad}SCall {i} {cs(s['f'][:60])} {cbool(s['r'])} {cbool(s['m'])} {cbool(s['a'])}"
    if op == "return":
        return f"{pad}SReturn {i}"
    if op == "inline":
        k, v = s["src"]
        a = {"same": "ASame", "self": f"(ASelf {cs(v or '')})", "const": f"(AConst {cs(v or '')})",
             "conv": f"(AConv {cs(v or '')})", "unknown": "AUnknown"}[k]
        return f"{pad}SInline {i} {cs(s['f'])} {a}\n{coq_block(s['body'], ind + 2)}"
    if op == "loop":
        return f"{pad}SLoop {i}\n{coq_block(s['body'], ind + 2)}"
    if op == "branch":
        return f"{pad}SBranch {i}\n{coq_block(s['b1'], ind + 2)}\n{coq_block(s['b2'], ind + 2)}"
    raise TranslateError("emit: " + op)


def coq_block(ir, ind):
    pad = " " * ind
    if not ir:
        return pad + "[]"
    return pad + "[\n" + ";\n".join(coq_stmt(s, ind + 1) for s in ir) + "\n" + pad + "]"


def wire_stmt(s):
    """the same IR in the prefix wire syntax read by Setter.parse_ir (harness -> extracted model)"""
    op = s["op"]
    i = str(s["id"])

    def w(x):
        return x.encode("utf-8", "replace").hex() or "00"
    if op == "checkinst":
        return ["K", i, str(len(s["ts"]))] + [w(t) for t in s["ts"]] + [w(s["exc"])]
    if op == "check":
        return ["O", i, w(s["exc"])]
    if op == "raise":
        return ["X", i, w(s["exc"])]
    if op == "convert":
        return ["V", i, w(s["t"]), "1" if s["guarded"] else "0", "1" if s.get("none_guard", False) else "0"]
    if op == "iter":
        return ["T", i]
    if op == "forget":
        return ["F", i]
    if op == "mutate":
        return ["M", i, w(s["target"])]
    if op == "call":
        return ["C", i, w(s["f"][:60]), "1" if s["r"] else "0", "1" if s["m"] else "0", "1" if s["a"] else "0"]
    if op == "return":
        return ["R", i]
    if op == "inline":
        k, v = s["src"]
        a = {"same": ["s"], "self": ["f", w(v or "")], "const": ["c", w(v or "")], "conv": ["v", w(v or "")],
             "unknown": ["u"]}[k]
        return ["I", i, w(s["f"])] + a + wire_block(s["body"]) + ["E"]
    if op == "loop":
        return ["L", i] + wire_block(s["body"]) + ["E"]
    if op == "branch":
        return ["B", i] + wire_block(s["b1"]) + ["E"] + wire_block(s["b2"]) + ["E"]
    raise TranslateError("wire: " + op)


def wire_block(ir):
    out = []
    for s in ir:
        out += wire_stmt(s)
    return out


# ------------------------------------------------------------------------------------------------
# C17 globals
# ------------------------------------------------------------------------------------------------
def globals_flags(ix):
    flags = {}
    # parser_base.MCNP_Parser.restart clears the shared log first
    pb = ix.classes.get("MCNP_Parser")
    if pb is None:
        raise TranslateError("MCNP_Parser not found")
    restart = [n for n in pb["node"].body if isinstance(n, ast.FunctionDef) and n.name == "restart"]
    body = [ast.unparse(s) for s in restart[0].body if not (isinstance(s, ast.Expr) and isinstance(s.value, ast.Constant))] if restart else []
    flags["restart_clears_log"] = body[:1] == ["self.log.clear_queue()"]
    logs = [n for n in pb["node"].body if isinstance(n, ast.Assign) and ast.unparse(n.targets[0]) == "log"]
    flags["parser_log_shared"] = bool(logs) and ast.unparse(logs[0].value) == "SLY_Supressor()"
    # no subclass rebinds `log` or overrides restart/parse
    over = []
    for cname, ci in ix.classes.items():
        if "MCNP_Parser" in ix.ancestors(cname):
            for n in ci["node"].body:
                if isinstance(n, ast.FunctionDef) and n.name in ("restart", "parse"):
                    over.append(f"{cname}.{n.name}")
                if isinstance(n, ast.Assign) and ast.unparse(n.targets[0]) == "log":
                    over.append(f"{cname}.log")
    flags["parser_overrides"] = over
    # MCNP_Parser.parse delegates to sly's parse, which restarts before anything else
    parse = [n for n in pb["node"].body if isinstance(n, ast.FunctionDef) and n.name == "parse"]
    delegates = bool(parse) and any(ast.unparse(n) == "super().parse(token_generator)" for n in ast.walk(parse[0]))
    import sly.yacc as sy
    with open(sy.__file__) as fh:
        st = ast.parse(fh.read())
    sly_ok = False
    for n in ast.walk(st):
        if isinstance(n, ast.ClassDef) and n.name == "Parser":
            for fd in n.body:
                if isinstance(fd, ast.FunctionDef) and fd.name == "parse":
                    # self.restart() must be executed before the main `while True` loop
                    for s in fd.body:
                        if isinstance(s, ast.While):
                            break
                        if ast.unparse(s) == "self.restart()":
                            sly_ok = True
    flags["sly_parse_restarts"] = delegates and sly_ok and not over
    # the cleared queue decides the result: `if len(self.log) > 0: return None`
    flags["nonempty_log_fails_parse"] = bool(parse) and any(
        isinstance(n, ast.If) and ast.unparse(n.test) == "len(self.log) > 0" and ast.unparse(n.body[0]) == "return None"
        for n in ast.walk(parse[0]))
    # input_syntax_reader.read_input_syntax: `global reading_queue; reading_queue = deque()` before anything is read
    fd = ix.modfuncs.get(("input_parser/input_syntax_reader.py", "read_input_syntax"))
    if fd is None:
        raise TranslateError("read_input_syntax not found")
    body = [s for s in fd.body if not (isinstance(s, ast.Expr) and isinstance(s.value, ast.Constant))]
    flags["read_resets_queue"] = ([ast.unparse(s) for s in body[:2]] == ["global reading_queue", "reading_queue = deque()"])
    # every other use of the queue is inside read_data
    users = []
    for (file, name), f in ix.modfuncs.items():
        if any(isinstance(n, ast.Name) and n.id == "reading_queue" for n in ast.walk(f)):
            users.append(f"{file}:{name}")
    flags["queue_users"] = sorted(users)
    # other module-level mutable globals of montepy (lists / dicts / sets / deques assigned at module level and
    # mutated from a function): reported, so that a new one is noticed
    return flags


def collection_mutators(ix):
    ci = ix.classes[COLLECTION_CLASS]
    out = []
    for fd in ci["node"].body:
        if not isinstance(fd, ast.FunctionDef):
            continue
        pub = not fd.name.startswith("_") or fd.name in ("__setitem__", "__delitem__", "__iadd__")
        if not pub or any(ast.unparse(d) == "property" for d in fd.decorator_list):
            continue
        mut = False
        for n in ast.walk(fd):
            if isinstance(n, (ast.Assign, ast.AugAssign)):
                ts = n.targets if isinstance(n, ast.Assign) else [n.target]
                for t in ts:
                    r = t
                    while isinstance(r, (ast.Attribute, ast.Subscript)):
                        r = r.value
                    if isinstance(r, ast.Name) and r.id == "self" and not isinstance(t, ast.Name):
                        mut = True
            if isinstance(n, ast.Call) and isinstance(n.func, ast.Attribute) and ast.unparse(n.func.value) == "self._objects" \
                    and n.func.attr in ("append", "extend", "clear", "remove", "pop", "insert"):
                mut = True
            if isinstance(n, ast.Delete):
                mut = True
            if isinstance(n, ast.Call) and ast.unparse(n.func) in ("self.append",):
                mut = True
        if mut and (COLLECTION_CLASS, fd.name) not in EXCLUDED:
            out.append(fd.name)
    return out


# ------------------------------------------------------------------------------------------------
def build():
    ix = Index()
    props = collect_props(ix)
    for d in props:
        d["node_opt"] = d["kind"] == "val" and d["types"][0] != "none" and hidden_may_be_none(ix, d["cls"], d["hidden"])
    templates = {n: translate_template(ix, n) for n in ("make_prop_val_node", "make_prop_pointer")}
    T = Translator(ix, props, templates)
    # generated setters: instantiate in Python too (Coq re-instantiates and compares)
    for d in props:
        if d["validator"]:
            T.validator(d["validator"], d["file"])
    setters = []
    seen = set()
    # hand-written property setters / deleters
    for cname, ci in sorted(ix.classes.items(), key=lambda kv: (kv[1]["file"], kv[1]["node"].lineno)):
        if ci["file"].startswith(SYNTAX_LAYER):
            continue
        for fd in ci["node"].body:
            if not isinstance(fd, ast.FunctionDef):
                continue
            decs = [ast.unparse(d) for d in fd.decorator_list]
            kind = None
            if f"{fd.name}.setter" in decs:
                kind = "setter"
            elif f"{fd.name}.deleter" in decs:
                kind = "deleter"
            if kind is None:
                continue
            if fd.name.startswith("_"):
                continue
            body = T.function(cname, fd.name, fd, ci["file"], 0, [(cname, fd.name + "." + kind)])
            setters.append(dict(cls=cname, name=fd.name, kind=kind, file=ci["file"], line=fd.lineno, ir=number(body),
                                end_line=fd.end_lineno, first_line=first_line(fd), params=[a.arg for a in fd.args.args][1:],
                                ndefaults=len(fd.args.defaults)))
            seen.add((cname, fd.name))
    for cname, m in METHODS:
        c, fd = ix.find_method(cname, m)
        if fd is None or c != cname:
            raise TranslateError(f"method {cname}.{m} not found")
        body = T.function(cname, m, fd, ix.classes[cname]["file"], 0, [(cname, m)])
        setters.append(dict(cls=cname, name=m, kind="method", file=ix.classes[cname]["file"], line=fd.lineno, ir=number(body),
                            end_line=fd.end_lineno, first_line=first_line(fd), params=[a.arg for a in fd.args.args][1:],
                            ndefaults=len(fd.args.defaults)))
        seen.add((cname, m))
    # fail closed on public mutating methods that are neither translated nor excluded
    unclassified = []
    for cname, ci in ix.classes.items():
        if ci["file"].startswith(SYNTAX_LAYER) or cname == COLLECTION_CLASS:
            continue
        for fd in ci["node"].body:
            if not isinstance(fd, ast.FunctionDef):
                continue
            pub = not fd.name.startswith("_") or fd.name in ("__setitem__", "__delitem__", "__iadd__")
            decs = [ast.unparse(d) for d in fd.decorator_list]
            if not pub or any(d == "property" or d.startswith("make_prop") or d in ("staticmethod", "abstractmethod") for d in decs):
                continue
            if len(fd.args.args) < 2 and (cname, fd.name) not in EXCLUDED:
                continue
            mut = False
            for n in ast.walk(fd):
                if isinstance(n, (ast.Assign, ast.AugAssign)):
                    ts = n.targets if isinstance(n, ast.Assign) else [n.target]
                    for t in ts:
                        r = t
                        while isinstance(r, (ast.Attribute, ast.Subscript)):
                            r = r.value
                        if isinstance(r, ast.Name) and r.id == "self" and not isinstance(t, ast.Name):
                            mut = True
                if isinstance(n, ast.Call) and isinstance(n.func, ast.Attribute) and n.func.attr in \
                        ("append", "extend", "clear", "add", "remove", "pop", "update", "insert", "discard"):
                    r = n.func.value
                    while isinstance(r, (ast.Attribute, ast.Subscript)):
                        r = r.value
                    if isinstance(r, ast.Name) and r.id == "self":
                        mut = True
            if mut and (cname, fd.name) not in seen and (cname, fd.name) not in EXCLUDED:
                unclassified.append(f"{cname}.{fd.name}")
    if unclassified:
        raise TranslateError("public mutating methods neither translated nor excluded: " + ", ".join(sorted(unclassified)))
    gen_ir = []
    for d in props:
        if d["types"][0] == "none":
            continue
        gen_ir.append(dict(cls=d["cls"], name=d["name"], ir=number(json.loads(json.dumps(T.generated_setter(d))))))
    validators = sorted(T.validators.values(), key=lambda v: (v["file"], v["name"]))
    for v in validators:
        v["ir"] = number(json.loads(json.dumps(v["body"])))
    classes = {c: ix.ancestors(c) for c in sorted(ix.classes)}
    iter_classes = sorted(c for c in ix.classes if any(
        any(isinstance(fd, ast.FunctionDef) and fd.name == "__iter__" for fd in ix.classes[a]["node"].body)
        for a in ix.mro(c) if a in ix.classes))
    return dict(classes=classes, iter_classes=iter_classes, templates=templates, props=props, validators=validators,
                setters=setters, generated=gen_ir, coll_mutators=collection_mutators(ix), flags=globals_flags(ix),
                notes=sorted(set(T.notes)), excluded={f"{a}.{b}": w for (a, b), w in EXCLUDED.items()})


def emit_v(G):
    L = []
    A = L.append
    A("(* GENERATED by harness/translate_setters.py from the working tree of montepy — do not edit. *)")
    A("From Coq Require Import List String Bool ZArith.")
    A("From MPV Require Import Model.Setter.")
    A("Import ListNotations.")
    A("Open Scope string_scope.")
    A("")
    A("Definition class_table : list (string * list string) := [")
    A(";\n".join(f"  ({cs(c)}, {clist([cs(a) for a in anc])})" for c, anc in G["classes"].items()))
    A("].")
    A("")
    A(f"Definition iter_classes : list string := {clist([cs(c) for c in G['iter_classes']])}.")
    A("")
    for name in ("make_prop_val_node", "make_prop_pointer"):
        tm = G["templates"][name]
        items = []
        for t in tm["stmts"]:
            if t["op"] == "TCheckType":
                items.append(f"TCheckType {cs(t['exc'])}")
            elif t["op"] == "TConvert":
                items.append(f"TConvert {cbool(t['none_guard'])}")
            else:
                items.append(t["op"])
        A(f"Definition tmpl_{name[10:]} : list tstmt := {clist(items)}.")
    A("")
    A("Definition prop_table : list prop_decl := [")
    rows = []
    for d in G["props"]:
        ty = {"none": "TyNone", "latch": "TyLatch"}.get(d["types"][0]) or f"(TyList {clist([cs(t) for t in d['types'][1]])})"
        base = f"(Some {cs(d['base'])})" if d["base"] else "None"
        val = f"(Some {cs(os.path.basename(d['file'])[:-3] + '.' + d['validator'])})" if d["validator"] else "None"
        rows.append(f"  mk_prop {cs(d['cls'])} {cs(d['name'])} {cs(d['hidden'])} {'PVal' if d['kind'] == 'val' else 'PPtr'} "
                    f"{ty} {base} {val} {cbool(d['deletable'])} {cbool(d['public'] and not d['syntax_layer'])} "
                    f"{cbool(d.get('node_opt', False))}")
    A(";\n".join(rows))
    A("].")
    A("")
    A("Definition validator_table : list (string * list stmt) := [")
    A(";\n".join(f"  ({cs(v['key'])},\n{coq_block(v['ir'], 4)})" for v in G["validators"]))
    A("].")
    A("")
    A("(* hand-written public setters / deleters / mutators: (class.name[.del], IR) *)")
    A("Definition setter_table : list (string * list stmt) := [")
    rows = []
    for s in G["setters"]:
        nm = f"{s['cls']}.{s['name']}" + (".del" if s["kind"] == "deleter" else "")
        rows.append(f"  ({cs(nm)},\n{coq_block(s['ir'], 4)})")
    A(";\n".join(rows))
    A("].")
    A("")
    A("(* the translator's own instantiation of the templates (must equal Setter.instantiate on prop_table) *)")
    A("Definition generated_table : list (string * list stmt) := [")
    A(";\n".join(f"  ({cs(g['cls'] + '.' + g['name'])},\n{coq_block(g['ir'], 4)})" for g in G["generated"]))
    A("].")
    A("")
    A(f"Definition coll_mutators : list string := {clist([cs(m) for m in G['coll_mutators']])}.")
    A("")
    f = G["flags"]
    for k in ("restart_clears_log", "sly_parse_restarts", "nonempty_log_fails_parse", "read_resets_queue", "parser_log_shared"):
        A(f"Definition {k} : bool := {cbool(f[k])}.")
    A(f"Definition queue_users : list string := {clist([cs(u) for u in f['queue_users']])}.")
    A("")
    return "\n".join(L)


def regenerate():
    G = build()
    text = emit_v(G)
    written = []
    if vlib.write_if_changed(OUT_V, text):
        written.append(OUT_V)
    # harness side: the same tables with line numbers and the wire form of every IR
    for s in G["setters"]:
        s["wire"] = " ".join(wire_block(s["ir"]))
    for g in G["generated"]:
        g["wire"] = " ".join(wire_block(g["ir"]))
    for v in G["validators"]:
        v["wire"] = " ".join(wire_block(v["ir"]))
        v.pop("body", None)
    js = json.dumps(G, indent=1, sort_keys=True, default=str)
    if vlib.write_if_changed(OUT_JSON, js):
        written.append(OUT_JSON)
    return written


def load():
    """tables for the harness (regenerates first)"""
    regenerate()
    with open(OUT_JSON) as fh:
        return json.load(fh)


if __name__ == "__main__":
    import sys
    G = build()
    if len(sys.argv) > 1 and sys.argv[1] == "dump":
        for s in G["setters"]:
            print(f"== {s['cls']}.{s['name']} [{s['kind']}] {s['file']}:{s['line']}")
            print(coq_block(s["ir"], 2))
        for v in G["validators"]:
            print(f"== validator {v['name']} {v['file']} users={v['users']}")
            print(coq_block(v["ir"], 2))
        print(json.dumps(G["flags"], indent=1))
        print("coll_mutators", G["coll_mutators"])
        print("props", len(G["props"]))
    else:
        print(regenerate())
