"""Trigger predicates of the open C03 findings."""
import findings_rt as FR


def C03_rotation_after_comment(case, params):
    import rt
    return FR.rotation_after_comment(case, rt.c03_check)


def C03_amp_after_moved_value(case, params):
    import rt
    import findings_rt as FR
    return FR.amp_after_moved_value(case, rt.c03_check)


def C03_rotation_short_on_full_form(case, params):
    import rt
    import findings_rt as FR
    return FR.rotation_short_on_full_form(case, rt.c03_check)
