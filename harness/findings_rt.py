"""Shared trigger helpers of the round-trip family's known findings (C01 C03 C07 C19).  A trigger decides from the
CASE (text + program): the feature must be present, and the same case WITHOUT the feature must pass.

The findings about Transform.rotation_matrix can occur together in one generated case (a matrix set twice on a card
that is also followed by a comment line ...).  Each of them is an ABLATION (a function case -> case without the
feature); finding X is triggered iff
  * X's feature is present in the case,
  * the case without ALL rotation features that are present passes, and
  * the case without X alone passes (X is necessary), or the case without the OTHER present features (X kept)
    still fails (X is sufficient)."""
import re


def _comment_free(line):
    i = line.find("$")
    return line if i < 0 else line[:i].rstrip()


# ---------------------------------------------------------------- the features (present?, ablated case)
def _layout(c, prog):
    """the program sets the rotation matrix of transform t, and the layout of t's TR card is not plain: a comment
    ('$ ...' on one of its lines, a 'c' line inside or directly after it) or a '&' continuation.
    Ablation: the same card on plain lines (no comments, no '&', continuation lines indented by five blanks)."""
    import spec
    ts = {e["orig"] for e in prog if e.get("kind") == "tr_rotation"}
    if not ts:
        return False, c, prog
    lines = c["text"].split("\n")
    out = []
    in_card = False
    first = False
    after_amp = False
    hit = False
    for l in lines:
        cr = "\r" if l.endswith("\r") else ""
        x = l.rstrip("\r").expandtabs(8)[:c.get("width", 80)]        # text beyond the column limit is no data
        m = re.match(r"^\s{0,4}\*?tr(\d+)(\s|$)", x, re.I)
        if m and not after_amp:
            in_card = int(m.group(1)) in ts
            first = True
        elif spec.is_comment_line(x):
            pass
        elif not x.strip():
            in_card = False
        elif x[:5].strip() and not after_amp:
            in_card = False
        if not in_card:
            out.append(l)
            after_amp = False
            continue
        if spec.is_comment_line(x):
            hit = True
            continue
        data = _comment_free(x).rstrip()
        if data != x.rstrip():
            hit = True
        after_amp = data.endswith("&")
        if after_amp:
            data = data[:-1].rstrip()
            hit = True
        if not first:
            data = "     " + data.strip()
        first = False
        if data.strip():
            out.append(data + cr)
    return hit, dict(c, text="\n".join(out)), prog


def _twice(c, prog):
    """the program sets the rotation matrix of one transform more than once.  Ablation: only the last of these edits
    per transform is kept."""
    last = {}
    for i, e in enumerate(prog):
        if e.get("kind") == "tr_rotation":
            last[e["orig"]] = i
    n = sum(1 for e in prog if e.get("kind") == "tr_rotation")
    prog2 = [e for i, e in enumerate(prog) if e.get("kind") != "tr_rotation" or last[e["orig"]] == i]
    return n > len(last), c, prog2


def _tr_values(c, t):
    """number of values on the TR card of transform t (from the text; shortcuts do not occur on generated TR cards)"""
    import spec
    n = None
    for l in c["text"].split("\n"):
        x = l.rstrip("\r").expandtabs(8)[:c.get("width", 80)]
        m = re.match(r"^\s{0,4}\*?tr(\d+)(\s|$)", x, re.I)
        if m:
            if n is not None:
                return n
            if int(m.group(1)) == t:
                n = len(_comment_free(x).replace("&", " ").split()) - 1
            continue
        if n is None or spec.is_comment_line(x):
            continue
        if not x.strip() or x[:5].strip():
            return n
        n += len(_comment_free(x).replace("&", " ").split())
    return n


def _last_value(c, prog):
    """the program changes the LAST value of a TR card (a displacement entry of a card without rotation entries) and
    later sets the rotation matrix of that transform (new entries are appended behind the changed value).
    Ablation: without these displacement edits."""
    rot = {}
    for i, e in enumerate(prog):
        if e.get("kind") == "tr_rotation":
            rot[e["orig"]] = i
    drop = set()
    for i, e in enumerate(prog):
        if e.get("kind") == "tr_displacement" and e["orig"] in rot and i < rot[e["orig"]]:
            n = _tr_values(c, e["orig"])
            if n is not None and e.get("index") == n - 1:
                drop.add(i)
    return bool(drop), c, [e for i, e in enumerate(prog) if i not in drop]


def _full_form(c, prog):
    """the program sets a rotation matrix of fewer than 9 entries on a transform whose card has the full form of 13
    values (12 numbers and the direction flag): the flag node is kept behind the shorter matrix for the first write.
    Ablation: without these edits."""
    drop = {i for i, e in enumerate(prog) if e.get("kind") == "tr_rotation" and len(e.get("matrix", [])) < 9
            and _tr_values(c, e["orig"]) == 13}
    return bool(drop), c, [e for i, e in enumerate(prog) if i not in drop]


FEATURES = {"layout": _layout, "twice": _twice, "last_value": _last_value, "full_form": _full_form}


def rotation_trigger(case, check, name):
    c = case["case"]
    prog = case.get("prog", [])
    present = [k for k in FEATURES if FEATURES[k](c, prog)[0]]
    if name not in present:
        return False
    c2, p2 = c, prog
    for k in present:
        _, c2, p2 = FEATURES[k](c2, p2)
    if check(c2, p2) is not None:
        return False
    if present == [name]:
        return True
    # X is necessary (without X alone the case passes) or sufficient (without the others it still fails)
    _, c3, p3 = FEATURES[name](c, prog)
    if check(c3, p3) is None:
        return True
    c3, p3 = c, prog
    for k in present:
        if k != name:
            _, c3, p3 = FEATURES[k](c3, p3)
    return check(c3, p3) is not None


def rotation_after_comment(case, check):
    return rotation_trigger(case, check, "layout")


def rotation_set_twice(case, check):
    return rotation_trigger(case, check, "twice")


def rotation_after_last_value_edit(case, check):
    return rotation_trigger(case, check, "last_value")


# ---------------------------------------------------------------- '&' directly after a cell-block value that is moved
_KEYRE = {"u": r"(?<![a-z:])\*?u", "vol": r"(?<![a-z])vol", "fill": r"(?<![a-z])\*?fill", "lat": r"(?<![a-z])lat"}


def amp_after_moved_value(case, check):
    """feature: the program moves the per-cell data K (u, vol, fill, lat) to the data block
    (print_in_data_block[K] = True) and a cell card spells 'K=<value> &' with the '&' at the end of the line: the
    '&' stays in the padding of the value and is written into the generated data-block card ('U 2J 2 &'), which then
    swallows the card after it.  Ablation: the same file without these '&' (the continuation lines are indented)."""
    c = case["case"]
    prog = case.get("prog", [])
    keys = {e.get("key") for e in prog if e.get("kind") == "placement" and e.get("data_block")} & set(_KEYRE)
    if not keys:
        return False
    W = c.get("width", 80)
    blank_seen = 0
    hit = False
    out = []
    lines = c["text"].split("\n")
    start = 0
    if lines and lines[0].lower().startswith("message:"):
        while start < len(lines) and lines[start].strip():
            start += 1
        start += 1
    for i, l in enumerate(lines):
        x = l.rstrip("\r").expandtabs(8)[:W]
        if i > start and not x.strip():
            blank_seen += 1
        if blank_seen or i <= start:
            out.append(l)
            continue
        data = _comment_free(x)
        m = None
        for k in keys:
            m = m or re.search(_KEYRE[k] + r"\s*=?\s*[-+.\deE]+\s*&\s*$", data, re.I)
        if m and "$" not in x:
            cr = "\r" if l.endswith("\r") else ""
            out.append(data.rstrip()[:-1].rstrip() + cr)
            hit = True
        else:
            out.append(l)
    if not hit:
        return False
    return check(dict(c, text="\n".join(out)), prog) is None


def rotation_short_on_full_form(case, check):
    return rotation_trigger(case, check, "full_form")
