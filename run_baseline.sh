#!/bin/sh
# runs MontePy's own suite (guard off: no hooks exist); test_version is in BASELINE.json's always_fail list
cd /repo && exec /venv/bin/python -m pytest -q -p no:cacheprovider --timeout=900 --continue-on-collection-errors "$@"
