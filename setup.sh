#!/bin/sh
# setup_cmd: build the whole Coq development and every extracted model binary from files on disk.
set -e
HERE="$(cd "$(dirname "$0")" && pwd)"
cd "$HERE"
export PYTHONPATH="/repo:$HERE/harness"
export PYTHONHASHSEED=0
export PYTHONDONTWRITEBYTECODE=1
exec /venv/bin/python "$HERE/harness/setup_all.py"
