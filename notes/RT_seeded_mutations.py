"""seeded-breakage self test: apply one mutation to the scratch worktree, run MontePy's suite there, run the
checks against it, revert.  Usage: run.py <name> ... (no name = all)"""
import subprocess, sys, json, os, re, time
WT="/tmp/wt-RT"
def sh(cmd,cwd=None):
    p=subprocess.run(cmd,shell=True,cwd=cwd,stdout=subprocess.PIPE,stderr=subprocess.STDOUT,text=True)
    return p.returncode,p.stdout
M=[]
def mut(name, props, path, old, new, expect="VIOLATION", note="", more=()):
    M.append(dict(name=name,props=props,path=path,old=old,new=new,expect=expect,note=note,more=list(more)))
# ---------------------------------------------------------------- C01
mut("C03-terminator-before-children",["C03","C01"],"montepy/mcnp_problem.py",
'''                if objects is self.data_inputs:
                    # cell modifier inputs belong inside the data block:
                    # MCNP ignores everything after the blank line that ends it
                    for line in self.cells._run_children_format_for_mcnp(
                        self.data_inputs, self.mcnp_version
                    ):
                        fh.write(line.rstrip() + "\\n")
                if terminate:
                    fh.write("\\n")
''','''                if terminate:
                    fh.write("\\n")
                if objects is self.data_inputs:
                    for line in self.cells._run_children_format_for_mcnp(
                        self.data_inputs, self.mcnp_version
                    ):
                        fh.write(line.rstrip() + "\\n")
''',note="the writer puts the data-block terminator before the cell-modifier child cards")
mut("C01-fill-array-fortran-order",["C01"],"montepy/data_inputs/fill.py",
'''            for i in self._axis_range(0):
                for j in self._axis_range(1):
                    for k in self._axis_range(2):
                        payload.append(self.universes[i][j][k].number)
''','''            for k in self._axis_range(2):
                for j in self._axis_range(1):
                    for i in self._axis_range(0):
                        payload.append(self.universes[i][j][k].number)
''',note="lattice fill array written in the other index order (coordinator's mutant)")
mut("C01-read-one-column-too-many",["C01"],"montepy/input_parser/input_syntax_reader.py",
'''        line = line[:line_length]
''','''        line = line[: line_length + 1]
''',note="read_data keeps one column past the line limit (coordinator's mutant)")
mut("C01-padding-newline-dropped",["C01"],"montepy/input_parser/syntax_node.py",
'''    def format(self):
        ret = ""
        for node in self.nodes:
            if isinstance(node, str):
                ret += node
            else:
                ret += node.format()
        return ret

    @property
    def comments(self):
        for node in self.nodes:
            if isinstance(node, CommentNode):''','''    def format(self):
        ret = ""
        for i, node in enumerate(self.nodes):
            if isinstance(node, str):
                if node == "\\n" and i == len(self.nodes) - 1 and i > 0:
                    continue
                ret += node
            else:
                ret += node.format()
        return ret

    @property
    def comments(self):
        for node in self.nodes:
            if isinstance(node, CommentNode):''',note="PaddingNode.format drops a final line break (lines are joined)")
# ---------------------------------------------------------------- C03
mut("C03-importance-setter-all-particles",["C03"],"montepy/data_inputs/importance.py",
'''        self._unshare_tree(particle)
        self._particle_importances[particle]["data"][0].value = value
''','''        self._particle_importances[particle]["data"][0].value = value
''',note="Importance setter writes into the shared tree again (reverts 11534b6)")
mut("C03-atom-density-sign",["C03"],"montepy/cell.py",
'''            self._tree["material"]["density"].is_negative = not self.is_atom_dens
''','''            self._tree["material"]["density"].is_negative = False
''',note="a mass density is written without its minus sign")
mut("C03-surface-constant-off-by-one",["C03"],"montepy/surfaces/surface.py",
'''        for i, value in enumerate(constants):
            self._surface_constants[i].value = value
''','''        for i, value in enumerate(constants):
            self._surface_constants[i - 1 if i == len(constants) - 1 and i > 1 else i].value = value
''',note="the last of three or more surface constants is written into its neighbour")
mut("C03-material-number-touches-cells",["C03"],"montepy/cell.py",
'''        self._tree["material"]["mat_number"].value = mat_num
''','''        self._tree["material"]["mat_number"].value = mat_num if mat_num < 90000 else mat_num % 90000
''',note="material numbers >= 90000 are written modulo 90000 on the cell card")
# ---------------------------------------------------------------- C07
mut("C07-exponent-tokens-respelled",["C07"],"montepy/input_parser/syntax_node.py",
'''        if self._type == float:
            return not math.isclose(
                self._print_value, self._og_value, rel_tol=rel_tol, abs_tol=abs_tol
            )
        return self.value != self._og_value
''','''        if self._type == float:
            if self._token is not None and re.search(r"\\d[+-]\\d", str(self._token)):
                return True
            return not math.isclose(
                self._print_value, self._og_value, rel_tol=rel_tol, abs_tol=abs_tol
            )
        return self.value != self._og_value
''',note="floats spelled 5.657-2 are always re-rendered, with an explicit exponent letter: 5.657e-2",
more=[('''            temp = temp.replace("e", self._formatter["divider"])''','''            temp = temp.replace("e", self._formatter["divider"] or "e")''')])
mut("C07-comment-dropped-on-edited-value",["C07"],"montepy/input_parser/syntax_node.py",
'''                extra_pad_str = "".join([x.format() for x in self.padding.nodes[1:]])
            else:''','''                extra_pad_str = "".join(
                    [x.format() for x in self.padding.nodes[1:] if isinstance(x, str)]
                )
            else:''',note="a '$' comment after an edited value is dropped")
mut("C07-thermal-comment-lost",["C07"],"montepy/data_inputs/thermal_scattering.py",
'''        if self._scattering_laws and end_padding is not None:
            self._scattering_laws[-1].padding = end_padding
''','''        pass
''',note="reverts 2a5f94c")

mut("C07-leading-zero-stripped",["C07"],"montepy/input_parser/syntax_node.py",
'''        if not self._value_changed:
            return f"{self._token}{self.padding.format() if self.padding else ''}"
''','''        if not self._value_changed:
            token = self._token
            if isinstance(token, str) and re.fullmatch(r"0\\d+\\.\\d*", token):
                token = token.lstrip("0")
            return f"{token}{self.padding.format() if self.padding else ''}"
''',note="an untouched number spelled 0307.14 is written 307.14")
# ---------------------------------------------------------------- C19
mut("C19-cleanup-blank-unconditional",["C19"],"montepy/cell.py",
'''            if not last_line[-1].isspace():
                return ret + " "
            return ret
''','''            return ret + " "
''',note="cleanup_last_line appends a blank unconditionally: a blank more per generation")
mut("C19-universe-formatter-reset",["C19"],"montepy/data_inputs/universe_input.py",
'''            if not self._tree["data"][0].is_negatable_identifier:
                self._tree["data"][0].is_negatable_identifier = True
''','''            self._tree["data"][0].is_negatable_identifier = True
''',note="reverts c06e1d3: the second write differs from the first")
mut("C19-modifier-line-break-joined",["C19"],"montepy/cell.py",
'''                        ret += getattr(self, attr)._format_as_text(mcnp_version)
''','''                        ret += "\\n".join(
                            getattr(self, attr).format_for_mcnp_input(mcnp_version)
                        )
''',note="reverts 2b9b718: generation drift of line breaks")
mut("C19-particle-order-random",["C19"],"montepy/input_parser/syntax_node.py",
'''        for straggler in sorted(remainder):
            ret.append(straggler)
''','''        for straggler in sorted(remainder):
            ret.insert(0, straggler)
''',note="ParticleNode puts new particles first: (harmless? order of a classifier changes only when particles are added)",expect="ANY")

mut("C01-block-end-comment-lost",["C01"],"montepy/mcnp_problem.py",
'''                    if (
                        trailing_comment is not None
                        and last_obj is not None
                        and last_block == input.block_type
                    ):
                        obj._grab_beginning_comment(trailing_comment)
                        last_obj._delete_trailing_comment()
''','''                    if trailing_comment is not None and last_obj is not None:
                        if last_block == input.block_type:
                            obj._grab_beginning_comment(trailing_comment)
                        last_obj._delete_trailing_comment()
''',note="a comment at the end of a block is deleted but handed to nobody")
mut("C01-dangling-amp-kept",["C01"],"montepy/cell.py",
'''                if line.rstrip().endswith("&"):
                    lines[i] = line.rstrip()[:-1]
                break
''','''                break
''',note="reverts a part of 3480888: a '&' that ends a cell swallows the next cell")
mut("C01-message-block-dropped-blank",["C01"],"montepy/mcnp_problem.py",
'''                objects_list.append(([self.message], False))
''','''                objects_list.append(([self.message], True))
''',note="an extra blank line after the message block (block structure)", expect="ANY")
mut("C19-listnode-padding-grows",["C19"],"montepy/input_parser/syntax_node.py",
'''                and not node.never_pad
            ):
                node.padding = PaddingNode(" ")
''','''                and not node.never_pad
            ):
                node.padding = PaddingNode(" ")
            elif (
                isinstance(node, ValueNode)
                and node._value_changed
                and node.padding is not None
                and i < length - 1
            ):
                node.padding.append(" ")
''',note="format() of a ListNode appends padding to a changed value each time it runs")
mut("C19-writer-keeps-trailing-blanks",["C19"],"montepy/mcnp_problem.py",
'''                        fh.write(line.rstrip() + "\\n")
                if objects is self.data_inputs:''','''                        fh.write(line + "\\n")
                if objects is self.data_inputs:''',note="reverts 7b99f67")
# ---------------------------------------------------------------- harmless rewrites
mut("H-syntaxnode-format-join",["C01","C07"],"montepy/input_parser/syntax_node.py",
'''    def format(self):
        ret = ""
        for node in self.nodes.values():
            if isinstance(node, ValueNode):
                if node.value is not None:
                    ret += node.format()
            else:
                ret += node.format()
        return ret
''','''    def format(self):
        parts = []
        for node in self.nodes.values():
            if isinstance(node, ValueNode) and node.value is None:
                continue
            parts.append(node.format())
        return "".join(parts)
''',expect="OK",note="behaviour-preserving rewrite of SyntaxNode.format")
mut("H-writer-collects-lines",["C01","C19"],"montepy/mcnp_problem.py",
'''                    for line in lines:
                        # trailing blanks carry no meaning and are lost when the file is read back
                        fh.write(line.rstrip() + "\\n")
''','''                    fh.write("".join(line.rstrip() + "\\n" for line in lines))
''',expect="OK",note="behaviour-preserving rewrite of the writer loop")
mut("H-cleanup-refactor",["C03","C19"],"montepy/cell.py",
'''            if not last_line[-1].isspace():
                return ret + " "
            return ret
''','''            return ret if last_line[-1].isspace() else ret + " "
''',expect="OK",note="behaviour-preserving rewrite of cleanup_last_line")

names=sys.argv[1:]
res=[]
for m in M:
    if names and m["name"] not in names: continue
    p=os.path.join(WT,m["path"]); src=open(p).read()
    if m["old"] not in src:
        print("!! pattern not found:",m["name"]); res.append((m["name"],"pattern-not-found")); continue
    new_src=src.replace(m["old"],m["new"],1)
    for o2,n2 in m.get("more",[]):
        assert o2 in new_src, "second pattern not found"
        new_src=new_src.replace(o2,n2,1)
    open(p,"w").write(new_src)
    try:
        rc,out=sh("timeout 900 /venv/bin/python -m pytest -q -p no:cacheprovider -x --deselect tests/test_version.py::TestVersion::test_version 2>&1 | tail -3",cwd=WT)
        suite="passes" if re.search(r"\b\d+ passed",out) and "failed" not in out else "FAILS: "+out.strip().split("\n")[-1][:100]
        for prop in m["props"]:
            t0=time.time()
            rc,out=sh(f"VERIF_REPO={WT} VERIF_SEED=0 timeout 1500 ./check {prop} --tier quick 2>&1 | grep -v '^KNOWN' | tail -4",cwd="/verif")
            verdict="VIOLATION" if "VIOLATION" in out else ("OK" if "OK property" in out else "ERROR")
            kind=""
            mm=re.search(r"replay=(\S+)",out)
            if mm and os.path.exists(mm.group(1)):
                try: kind=json.load(open(mm.group(1))).get("kind","")
                except Exception: pass
            line=f"{m['name']:40s} {prop} suite:{suite:8s} check:{verdict:9s} {kind:28s} expect:{m['expect']:9s} {time.time()-t0:5.0f}s"
            print(line,flush=True); res.append(line)
    finally:
        open(p,"w").write(src)
rc,out=sh("git status --short",cwd=WT); print("worktree clean:",out.strip()=="" )
